"""C13 -- missing dissimilarities are ignored consistently or rejected, never misaligned."""
import itertools
from fractions import Fraction

import numpy as np

from harness.common import total, dot, center, triu_pairs
from harness.C03 import ref_measure, ref_rank_measure, v_matrix, mat_inv
from symx.run import sqrt, isnan

PROP = 'C13'


def _stack(T, name, n_rdm, nd, mask):
    D = T.arr(name, (n_rdm, nd))
    Din = D.copy()
    for k in mask:
        Din[:, k] = np.nan
    return D, Din


def _assume(T, method, rows):
    for v in rows:
        w = center(v) if method.startswith('corr') else v
        T.assume(dot(w, w) > 0)


def case_compare(T, cfg):
    """common mask: compare() on NaN-marked RDMs == reference measure on the entry-deleted vectors"""
    from rsatoolbox.rdm import compare, RDMs
    method = cfg['method']
    n = cfg['n_cond']
    nd = n * (n - 1) // 2
    mask = cfg['mask']
    keep = [k for k in range(nd) if k not in mask]
    A_, Ain = _stack(T, 'a', cfg['n1'], nd, mask)
    B_, Bin = _stack(T, 'b', cfg['n2'], nd, mask)
    kw = {}
    Vinv = None
    if method.endswith('_cov'):
        sig = None
        if cfg.get('sigma') == 'cvector':
            vals = [Fraction(1), Fraction(2), Fraction(1, 2), Fraction(3)][:n]
            kw['sigma_k'] = np.array([float(v) for v in vals])
            sig = vals
        V = v_matrix(n, sig)
        Vinv = mat_inv([[V[i][j] for j in keep] for i in keep])      # rows/columns of V deleted, then inverted
    if method in ('cosine', 'corr', 'cosine_cov', 'corr_cov'):
        _assume(T, method, [[r[k] for k in keep] for r in A_] + [[r[k] for k in keep] for r in B_])
    in1 = RDMs(Ain) if cfg.get('in1', 'rdms') == 'rdms' else Ain
    got = compare(in1, RDMs(Bin), method, **kw)
    key = f"C13:compare:{method}"
    for i in range(cfg['n1']):
        for j in range(cfg['n2']):
            a = [A_[i, k] for k in keep]
            b = [B_[j, k] for k in keep]
            if method in ('cosine', 'corr', 'cosine_cov', 'corr_cov'):
                want = ref_measure(method, a, b, Vinv)
            else:
                want = ref_rank_measure(method, a, b)
                if want is None:
                    T.concrete('undefined (constant vector) - outside', True)
                    continue
            T.eq(f'sim[{i},{j}]', got[i, j], want, key=key)


def case_reject(T, cfg):
    """different missing positions must be rejected with an error, never compared entry-shifted"""
    from rsatoolbox.rdm import compare, RDMs
    n = cfg['n_cond']
    nd = n * (n - 1) // 2
    A_, Ain = _stack(T, 'a', 1, nd, cfg['mask1'])
    B_, Bin = _stack(T, 'b', 1, nd, cfg['mask2'])
    method = cfg['method']
    key = f'C13:reject:{"equalcount" if len(cfg["mask1"]) == len(cfg["mask2"]) else "diffcount"}'
    T.raises(f'{method}: masks {cfg["mask1"]} vs {cfg["mask2"]} rejected', ValueError,
             lambda: compare(RDMs(Ain), RDMs(Bin), method), key=key)


def case_reject_stack(T, cfg):
    """RDMs of one stack with different missing positions (same count) must be rejected as well"""
    from rsatoolbox.rdm import compare, RDMs
    n = cfg['n_cond']
    nd = n * (n - 1) // 2
    A_ = T.arr('a', (2, nd))
    Ain = A_.copy()
    Ain[0, cfg['k1']] = np.nan
    Ain[1, cfg['k2']] = np.nan
    B_, Bin = _stack(T, 'b', 1, nd, [cfg['k1']])
    T.raises('stack with differing nan positions rejected', ValueError,
             lambda: compare(RDMs(Ain), RDMs(Bin), cfg['method']), key='C13:reject:within-stack')


def case_pool(T, cfg):
    """pooled RDM with common NaNs == pooled RDM of the entry-deleted vectors put back in place"""
    from rsatoolbox.rdm import RDMs
    n = cfg['n_cond']
    nd = n * (n - 1) // 2
    mask = cfg['mask']
    keep = [k for k in range(nd) if k not in mask]
    D, Din = _stack(T, 'd', cfg['n_rdm'], nd, mask)
    method = cfg['method']
    _assume(T, 'corr' if method.startswith('corr') else 'cosine', [[r[k] for k in keep] for r in D])
    if cfg['which'] == 'inference_util':
        from rsatoolbox.util.inference_util import pool_rdm
        got = pool_rdm(RDMs(Din), method).dissimilarities[0]
        ref = pool_rdm(RDMs(D[:, keep].copy()) if len(keep) in (1, 3, 6) else _Fake(D[:, keep].copy()), method).dissimilarities[0]
    else:
        from rsatoolbox.util.pooling import pool_rdm
        got = pool_rdm(RDMs(Din), method).dissimilarities[0]
        ref = None
    key = f"C13:pool:{cfg['which']}:{method}"
    T.concrete('NaN exactly at the missing entries', [bool(isnan(x)) for x in got] == [k in mask for k in range(nd)], key=key)
    if ref is not None:
        T.eq('values = pool of the entry-deleted rdms', [got[k] for k in keep], list(ref), key=key)
    elif method in ('cosine_cov', 'corr_cov'):
        # util.pooling: each rdm is normalised by sqrt(x' V^-1 x) with the rows/columns of V of missing entries deleted
        from harness.C03 import quad
        V = v_matrix(n, None)
        Vinv = mat_inv([[V[i][j] for j in keep] for i in keep])
        rows = []
        for r in range(cfg['n_rdm']):
            x = [D[r, k] for k in keep]
            if method == 'corr_cov':
                x = center(x)
            nrm = sqrt(quad(x, Vinv, x))
            rows.append([v / nrm for v in x])
        m = [total(rw[j] for rw in rows) / len(rows) for j in range(len(keep))]
        if method == 'corr_cov':
            lo = m[0]
            for x in m[1:]:
                if bool(x < lo):
                    lo = x
            m = [x - lo + (Fraction(1, 100) if T.symbolic else 0.01) for x in m]
        T.eq('values', [got[k] for k in keep], m, key=key)
    else:
        # util.pooling: weighted by V^-1 norm for *_cov; plain methods as in inference_util
        from harness.C07 import ref_pool
        vec = [[np.nan if k in mask else D[r, k] for k in range(nd)] for r in range(cfg['n_rdm'])]
        want = ref_pool(vec, method)
        if method == 'corr':
            # util.pooling does not shift by the minimum
            rows = []
            for v in vec:
                c = center([v[k] for k in keep])
                sd = sqrt(dot(c, c) / len(c))
                rows.append([x / sd for x in c])
            m = [total(r[j] for r in rows) / len(rows) for j in range(len(keep))]
            lo = m[0]
            for x in m[1:]:
                if bool(x < lo):
                    lo = x
            want = [np.nan] * nd
            for j, k in enumerate(keep):
                want[k] = m[j] - lo + Fraction(1, 100) if T.symbolic else m[j] - lo + 0.01
        T.eq('values', [got[k] for k in keep], [want[k] for k in keep], key=key)


class _Fake:
    """RDMs-like holder for vectors whose length is not triangular (entry-deleted)"""

    def __init__(self, v):
        self.v = v
        self.dissimilarity_measure = None
        self.descriptors = {}
        self.pattern_descriptors = {}

    def get_vectors(self):
        return self.v


def case_mean(T, cfg):
    """RDMs.mean: per-pair NaN-aware weighted mean; NaN only where no RDM has a value"""
    from rsatoolbox.rdm import RDMs
    n_rdm, nd = cfg['n_rdm'], 3
    D = T.arr('d', (n_rdm, nd))
    Din = D.copy()
    for (r, k) in cfg['nan_at']:
        Din[r, k] = np.nan
    nanset = {tuple(x) for x in cfg['nan_at']}
    wkind = cfg['weights']
    kw = {}
    rd = {}
    W = None
    if wkind == 'array':
        W = T.arr('w', (n_rdm, nd), positive=True)
        kw['weights'] = W.copy()
    elif wkind == 'desc':
        wv = T.arr('w', (n_rdm,), positive=True)
        W = [[wv[r]] * nd for r in range(n_rdm)]
        rd['rdmw'] = wv.copy() if cfg.get('desc_container') == 'array' else list(wv.copy())
        kw['weights'] = 'rdmw'
    obj = RDMs(Din, rdm_descriptors=rd or None, pattern_descriptors={'c': ['x', 'y', 'z']})
    m = obj.mean(**kw)
    want = []
    for k in range(nd):
        idx = [r for r in range(n_rdm) if (r, k) not in nanset]
        if not idx:
            want.append(np.nan)
        elif W is None:
            want.append(total(D[r, k] for r in idx) / len(idx))
        else:
            want.append(total(D[r, k] * W[r][k] for r in idx) / total(W[r][k] for r in idx))
    key = f'C13:mean:{wkind}'
    T.eq('weighted nan-aware mean', m.dissimilarities[0], want, key=key)
    T.concrete('pattern descriptors kept', list(m.pattern_descriptors['c']) == ['x', 'y', 'z'], key=key)


def case_fit(T, cfg):
    """fit_regress with common NaNs == fit on the entry-deleted vectors (normal equations on the kept entries)"""
    from rsatoolbox.rdm import RDMs
    from rsatoolbox.model import ModelWeighted
    from rsatoolbox.model.fitter import fit_regress
    n = cfg['n_cond']
    nd = n * (n - 1) // 2
    mask = cfg['mask']
    keep = [k for k in range(nd) if k not in mask]
    D, Din = _stack(T, 'd', cfg['n_rdm'], nd, mask)
    Bv = T.arr('m', (2, nd))
    method = cfg['method']
    _assume(T, method, [[r[k] for k in keep] for r in D])
    Bin = Bv.copy()
    for k in mask:
        Bin[:, k] = np.nan          # the model prediction misses the same entries (as after a pattern bootstrap)
    model = ModelWeighted('w', RDMs(Bin))
    theta = fit_regress(model, RDMs(Din), method=method, normalize=False)
    # reference: least squares of the pooled data on the basis, restricted to the kept entries
    from harness.C07 import ref_pool
    vec = [[np.nan if k in mask else D[r, k] for k in range(nd)] for r in range(cfg['n_rdm'])]
    y = [ref_pool(vec, 'cosine' if method == 'cosine' else 'corr')[k] for k in keep]
    X = [[Bv[j, k] for k in keep] for j in range(2)]
    if method == 'corr':
        X = [center(x) for x in X]
        y = center(y)
    G = [[dot(X[a], X[b]) for b in range(2)] for a in range(2)]
    rhs = [dot(X[a], y) for a in range(2)]
    key = f'C13:fit:{method}'
    # normal equations of the least-squares problem restricted to the kept entries
    gt = [G[a][0] * theta[0] + G[a][1] * theta[1] for a in range(2)]
    T.eq('normal equations on the kept entries', gt, rhs, key=key)


CASES = dict(compare=case_compare, reject=case_reject, reject_stack=case_reject_stack, pool=case_pool, mean=case_mean,
             fit=case_fit)
MAX_PATHS = dict(quick=3000, thorough=20000)
ASSUME_SQRT_ARGS_POSITIVE = True
SKIP_UNKNOWN_BRANCHES = True
FEAS_TIMEOUT_MS = 3000


def configs(tier):
    quick = tier == 'quick'
    out = []
    masks4 = [[0], [5], [1, 4], [0, 3, 5]] if quick else [list(c) for r in (1, 2, 3) for c in itertools.combinations(range(6), r)]
    for method in ['cosine', 'corr']:
        for mask in masks4:
            out.append(dict(case='compare', method=method, n_cond=4, n1=2 if len(mask) < 3 else 1, n2=1, mask=mask))
        out.append(dict(case='compare', method=method, n_cond=4, n1=1, n2=2, mask=[2], in1='array'))
    for method in ['cosine_cov', 'corr_cov']:
        for sig in ['none', 'cvector']:
            for mask in ([[0], [1, 4]] if quick else [[0], [5], [1, 4], [0, 3], [2, 3, 4]]):
                out.append(dict(case='compare', method=method, n_cond=4, n1=1, n2=1, mask=mask, sigma=sig))
    for method in ['spearman', 'rho-a', 'tau-a', 'kendall']:
        out.append(dict(case='compare', method=method, n_cond=4, n1=1, n2=1, mask=[0, 3, 5]))
        if not quick:
            out.append(dict(case='compare', method=method, n_cond=4, n1=1, n2=1, mask=[1, 2, 4]))
    for method in ['cosine', 'corr', 'cosine_cov', 'corr_cov', 'spearman', 'rho-a', 'tau-a']:
        pairs = [([0], [1]), ([5], [0]), ([0, 1], [0, 2]), ([0], [0, 1]), ([], [3])]
        for m1, m2 in (pairs if method in ('cosine', 'corr_cov', 'rho-a') or not quick else pairs[:2]):
            out.append(dict(case='reject', method=method, n_cond=4, mask1=m1, mask2=m2))
    for method in ['cosine', 'corr']:
        out.append(dict(case='reject_stack', method=method, n_cond=4, k1=0, k2=3))
    for which in ['inference_util', 'pooling']:
        for method in ['cosine', 'corr']:
            out.append(dict(case='pool', which=which, method=method, n_cond=4, n_rdm=2, mask=[0, 3, 5]))
            if method == 'cosine' or not quick:
                out.append(dict(case='pool', which=which, method=method, n_cond=4, n_rdm=2, mask=[2]))
    for method in ['cosine_cov', 'corr_cov']:
        out.append(dict(case='pool', which='pooling', method=method, n_cond=4, n_rdm=2, mask=[0, 3, 5]))
        out.append(dict(case='pool', which='pooling', method=method, n_cond=3, n_rdm=2, mask=[]))
        if not quick:
            out.append(dict(case='pool', which='pooling', method=method, n_cond=4, n_rdm=2, mask=[1, 2]))
    for w in ['none', 'array', 'desc']:
        for nan_at in [[], [[0, 1]], [[0, 0], [1, 0]], [[0, 2], [1, 1]]]:
            out.append(dict(case='mean', weights=w, n_rdm=2, nan_at=nan_at))
        out.append(dict(case='mean', weights=w, n_rdm=3, nan_at=[[0, 0], [2, 0], [1, 2]], desc_container='array'))
    for method in ['cosine', 'corr']:
        out.append(dict(case='fit', method=method, n_cond=4, n_rdm=2, mask=[0, 3]))
        out.append(dict(case='fit', method=method, n_cond=4, n_rdm=1, mask=[5]))
    return out
