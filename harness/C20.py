"""C20 -- importers recover exactly the structure encoded in external names and files."""
import itertools
import os
from fractions import Fraction

import numpy as np

from harness.common import total, dot
from symx.core import B

PROP = 'C20'
REPO_IO = '/repo/src/rsatoolbox/io'


def _mods(T):
    """symbolic mode: io/bids.py and io/mne.py re-compiled from the working tree with f-strings / joins rerouted"""
    if T.symbolic:
        from symx.strings import load_transformed
        return (load_transformed(os.path.join(REPO_IO, 'bids.py'), 'symx_bids'),
                load_transformed(os.path.join(REPO_IO, 'mne.py'), 'symx_mne'))
    import rsatoolbox.io.bids as b
    import rsatoolbox.io.mne as m
    return b, m


def _cat(*parts):
    from symx.strings import SS
    if any(isinstance(p, SS) for p in parts):
        out = []
        for p in parts:
            out += SS.lift(p).p
        return SS(out)
    return ''.join(parts)


def _seq(T, label, got, want, key):
    """string equality obligation (z3 strings in symbolic mode)"""
    from symx.strings import SS
    if got is None or want is None:
        return T.concrete(label, got is None and want is None, f'{got!r} vs {want!r}', key=key)
    if T.symbolic and (isinstance(got, SS) or isinstance(want, SS)):
        g, w = SS.lift(got), SS.lift(want)
        if g.p == w.p:
            return T.concrete(label, True, key=key)
        return T.holds(label, B(g.z == w.z, g.sh == w.sh), key=key)
    return T.concrete(label, str(got) == str(want), f'{got!r} vs {want!r}', key=key)


ENT_ORDER = ['ses', 'task', 'run', 'space', 'desc']


def build_path(T, cfg):
    e = {'sub': T.sym_str('sub', 'S01'), 'modality': T.sym_str('mod', 'func'), 'suffix': T.sym_str('suffix', 'bold')}
    e['ext'] = T.sym_str('ext', 'nii') if cfg.get('ext', 'atom') == 'atom' else cfg['ext']
    for k, d in [('ses', 'pre'), ('task', 'rest'), ('run', '02'), ('space', 'MNI'), ('desc', 'preproc'), ('derivative', 'fmriprep')]:
        e[k] = T.sym_str(k, d) if k in cfg['present'] else None
    segs = [_cat('sub-', e['sub'])]
    for k in ENT_ORDER:
        if e[k] is not None:
            segs.append(_cat(k + '-', e[k]))
    fname = segs[0]
    for s in segs[1:]:
        fname = _cat(fname, '_', s)
    fname = _cat(fname, '_', e['suffix'], '.', e['ext'])
    path = _cat('sub-', e['sub'], '/')
    if e['ses'] is not None:
        path = _cat(path, 'ses-', e['ses'], '/')
    path = _cat(path, e['modality'], '/', fname)
    if e['derivative'] is not None:
        path = _cat('derivatives/', e['derivative'], '/', path)
    return path, e


def check_entities(T, tag, f, e, key):
    for k in ['sub', 'ses', 'task', 'run', 'space', 'desc', 'derivative', 'modality', 'suffix', 'ext']:
        _seq(T, f'{tag}: entity {k}', getattr(f, k, None), e.get(k), key)


def case_bids(T, cfg):
    bids, _ = _mods(T)
    path, e = build_path(T, cfg)
    layout = bids.BidsLayout('/data')
    f = bids.BidsFile(path, layout)
    key = 'C20:bids'
    check_entities(T, 'parse', f, e, key)
    _seq(T, 'rebuild: path from entities == original path', layout._replace(f, {}), path, key)
    # look-ups change only the entities they are asked to change
    meta = layout.find_meta_for(f)
    check_entities(T, 'find_meta_for', meta, dict(e, ext='json'), key + ':meta')
    ev = layout.find_events_for(f)
    check_entities(T, 'find_events_for', ev, dict(e, derivative=None, space=None, desc=None, suffix='events', ext='tsv'), key + ':events')
    nd, ns = T.sym_str('newdesc', 'confounds'), T.sym_str('newsuffix', 'timeseries')
    sib = layout.find_table_sibling_of(f, nd, ns)
    check_entities(T, 'find_table_sibling_of', sib, dict(e, desc=nd, suffix=ns, ext='tsv', space=None), key + ':table_sibling')
    sib2 = layout.find_mri_sibling_of(f, nd, ns)
    check_entities(T, 'find_mri_sibling_of', sib2, dict(e, desc=nd, suffix=ns), key + ':mri_sibling')


def case_mne_name(T, cfg):
    _, mne = _mods(T)
    parts = []
    e = {}
    for k, d in [('sub', '01'), ('ses', 'a'), ('task', 'vis'), ('run', '3')]:
        if k in cfg['present']:
            e[k] = T.sym_str(k, d)
            parts.append(_cat(k + '-', e[k]))
    fname = parts[0]
    for p in parts[1:]:
        fname = _cat(fname, '_', p)
    fname = _cat(fname, '_epo.fif')
    got = mne.descriptors_from_bids_filename(fname)
    key = 'C20:mne_name'
    for k in ['sub', 'run', 'task']:
        _seq(T, f'descriptor {k}', got.get(k), e.get(k), key)
    T.concrete('no other descriptors', set(got) <= {'sub', 'run', 'task'}, str(set(got)), key=key)


def case_epochs(T, cfg):
    """MNE epochs -> temporal dataset with the epochs' data, event codes, channel names and times"""
    from rsatoolbox.io.mne import dataset_from_epochs
    n_ep, n_ch, n_t = cfg['shape']
    X = T.arr('x', (n_ep, n_ch, n_t))

    class Epochs:
        events = np.array([[i * 10, 0, cfg['codes'][i]] for i in range(n_ep)])
        ch_names = ['MEG%03d' % i for i in range(n_ch)]
        times = np.array([-0.1 + 0.05 * i for i in range(n_t)])

        def get_data(self):
            return X.copy()
    ds = dataset_from_epochs(Epochs(), dict(filename='f', sub='01'))
    key = 'C20:epochs'
    T.eq('data', ds.measurements, X, key=key)
    T.concrete('event codes', list(ds.obs_descriptors['event']) == list(cfg['codes'][:n_ep]), key=key)
    T.concrete('channel names', list(ds.channel_descriptors['name']) == Epochs.ch_names, key=key)
    T.concrete('times', [float(t) for t in ds.time_descriptors['time']] == [float(t) for t in Epochs.times], key=key)
    T.concrete('descriptors', ds.descriptors.get('sub') == '01', key=key)


def case_spm_filter(T, cfg):
    """SPM high-pass filtering removes from each run's data its component in that run's filter regressors"""
    from rsatoolbox.io.spm import SpmGlm
    n_runs, n_scan, n_vox, n_reg = cfg['n_runs'], cfg['n_scan'], cfg['n_vox'], cfg['n_reg']
    Y = T.arr('y', (n_runs * n_scan, n_vox))
    X0 = [T.arr(f'k{r}', (n_scan, n_reg)) for r in range(n_runs)]
    glm = SpmGlm.__new__(SpmGlm)
    glm.filter_matrices = [x.copy() for x in X0]
    glm.nscans = np.array([n_scan] * n_runs)
    glm.nruns = n_runs
    out = glm.spm_filter(Y.copy())
    key = 'C20:spm_filter'
    want = np.empty((n_runs * n_scan, n_vox), dtype=object if T.symbolic else float)
    for r in range(n_runs):
        rows = list(range(r * n_scan, (r + 1) * n_scan))
        for v in range(n_vox):
            y = [Y[i, v] for i in rows]
            proj = [total(X0[r][a, k] * y[a] for a in range(n_scan)) for k in range(n_reg)]     # X0' y
            for a, i in enumerate(rows):
                want[i, v] = y[a] - total(X0[r][a, k] * proj[k] for k in range(n_reg))
    T.eq('filtered = Y - X0 (X0\' Y) per run', out, want, key=key)


def case_design(T, cfg):
    """HRF design matrix: one range-normalised, centred column per condition plus flagged confound columns
    (symbolic confound values; confound columns with missing values are dropped), dof = volumes - columns"""
    import pandas
    import rsatoolbox.io.fmriprep as fp
    n_vols, tr = cfg['n_vols'], cfg['tr']
    events = pandas.DataFrame(dict(onset=cfg['onsets'], duration=[cfg['dur']] * len(cfg['onsets']),
                                   trial_type=cfg['types']))
    cols = {}
    sym = {}
    for name, kind in cfg['confounds']:
        if kind == 'sym':
            v = T.arr('cf_' + name, (n_vols,))
            sym[name] = v
            cols[name] = list(v.copy())
        elif kind == 'nanfirst':
            v = T.arr('cf_' + name, (n_vols,))
            cols[name] = [np.nan] + list(v.copy())[1:]
    conf = pandas.DataFrame(cols) if cols else None
    dm, mask, dof = fp.make_design_matrix(events, tr, n_vols, conf)
    key = 'C20:design'
    n_cond = len(dict.fromkeys(cfg['types']))
    kept = [name for name, kind in cfg['confounds'] if kind == 'sym']
    T.concrete('shape', tuple(dm.shape) == (n_vols, n_cond + len(kept)), str(dm.shape), key=key)
    T.concrete('one flag per column: conditions True, confounds False',
               [bool(x) for x in mask] == [True] * n_cond + [False] * len(kept), str(list(mask)), key=key)
    T.concrete('dof = volumes - columns', dof == n_vols - (n_cond + len(kept)), str(dof), key=key)
    for c in range(n_cond):
        col = [float(x) for x in dm[:, c]]
        T.concrete(f'condition column {c} centred and range-normalised',
                   abs(sum(col)) < 1e-9 and abs((max(col) - min(col)) - 1) < 1e-9, str(col), key=key)
    for k, name in enumerate(kept):
        v = list(sym[name])
        lo, hi = v[0], v[0]
        for x in v[1:]:
            if bool(x < lo):
                lo = x
            if bool(x > hi):
                hi = x
        T.assume(hi > lo)
        m = total(v) / n_vols
        T.eq(f'confound column {name} centred and range-normalised', dm[:, n_cond + k], [(x - m) / (hi - lo) for x in v], key=key)


CASES = dict(design=case_design, bids=case_bids, mne_name=case_mne_name, epochs=case_epochs, spm_filter=case_spm_filter)
MAX_PATHS = dict(quick=200, thorough=2000)
NPROC = 6       # z3's string solver slows down disproportionately when all 16 cores are busy


def configs(tier):
    quick = tier == 'quick'
    out = []
    opts = ['ses', 'task', 'run', 'space', 'desc', 'derivative']
    for r in range(len(opts) + 1):
        for present in itertools.combinations(opts, r):
            out.append(dict(case='bids', present=list(present), ext='atom'))
    for present in [[], ['ses', 'run'], opts]:
        out.append(dict(case='bids', present=list(present), ext='nii.gz'))
    for r in range(4):
        for present in itertools.combinations(['ses', 'task', 'run'], r):
            out.append(dict(case='mne_name', present=['sub'] + list(present)))
    out.append(dict(case='design', n_vols=4, tr=2.0, onsets=[0.0, 2.0], dur=2.0, types=['a', 'b'],
                    confounds=[['x', 'sym'], ['dx', 'nanfirst']]))
    out.append(dict(case='design', n_vols=4, tr=2.0, onsets=[0.0, 2.0, 4.0], dur=2.0, types=['a', 'b', 'a'],
                    confounds=[['dx', 'nanfirst'], ['x', 'sym'], ['y', 'sym']] if not quick else [['dx', 'nanfirst'], ['x', 'sym']]))
    out.append(dict(case='design', n_vols=6, tr=2.0, onsets=[2.0, 6.0], dur=2.0, types=['a', 'b'], confounds=[]))
    out.append(dict(case='epochs', shape=[3, 2, 2], codes=[5, 1, 5]))
    out.append(dict(case='epochs', shape=[1, 1, 1], codes=[2]))
    out.append(dict(case='spm_filter', n_runs=2, n_scan=3, n_vox=2, n_reg=1))
    out.append(dict(case='spm_filter', n_runs=1, n_scan=3, n_vox=1, n_reg=2))
    if not quick:
        out.append(dict(case='spm_filter', n_runs=2, n_scan=4, n_vox=2, n_reg=2))
    return out
