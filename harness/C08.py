"""C08 -- fitted model parameters maximise the training criterion within constraints."""
import itertools
from fractions import Fraction

import numpy as np

from harness.common import total, dot, center, triu_pairs
from harness.C03 import v_matrix, mat_inv, quad, ref_measure
from harness.C07 import ref_pool
from harness.C09 import pair_index
from symx.run import sqrt, isnan

PROP = 'C08'


def _setup(T, cfg, positive=False):
    from rsatoolbox.rdm import RDMs
    n = cfg['n_cond']
    nd = n * (n - 1) // 2
    Bv = T.arr('m', (cfg['n_basis'], nd), positive=positive)
    D = T.arr('d', (cfg['n_rdm'], nd), positive=positive)
    pd = {'cond': ['c%d' % i for i in range(n)]}
    basis = RDMs(Bv.copy(), dissimilarity_measure='mm', descriptors={'src': 'theory'}, pattern_descriptors=dict(pd))
    data = RDMs(D.copy(), pattern_descriptors=dict(pd))
    return Bv, D, basis, data, n, nd


def _selected_pairs(n, idx):
    """entries of the RDM restricted to conditions idx (sorted, with multiplicity); copy pairs are missing"""
    idx = sorted(idx)
    out = []
    for a, b in itertools.combinations(range(len(idx)), 2):
        out.append(None if idx[a] == idx[b] else pair_index(n, idx[a], idx[b]))
    return out


def _sigma(cfg, n):
    if cfg.get('sigma') == 'cvector':
        vals = [Fraction(1), Fraction(2), Fraction(1, 2), Fraction(3), Fraction(3, 2)][:n]
        return np.diag([float(v) for v in vals]), vals
    return None, None


def case_regress(T, cfg):
    """fit_regress: theta solves the normal equations of the correctly normalised problem on the selected conditions"""
    from rsatoolbox.model import ModelWeighted
    from rsatoolbox.model.fitter import fit_regress
    Bv, D, basis, data, n, nd = _setup(T, cfg)
    method = cfg['method']
    model = ModelWeighted('w', basis)
    kw = {}
    idx = cfg.get('pattern_idx')
    sk, sref = _sigma(cfg, n)
    if sk is not None:
        kw['sigma_k'] = sk
    if idx is not None:
        data_in = data.subsample_pattern('index', idx)
        kw.update(pattern_idx=np.array(idx), pattern_descriptor='index')
        sel = _selected_pairs(n, idx)
    else:
        data_in = data
        sel = list(range(nd))
    keep = [k for k in sel if k is not None]
    base = 'corr' if method.startswith('corr') else 'cosine'
    for r in range(cfg['n_rdm']):
        v = [D[r, k] for k in keep]
        v = center(v) if base == 'corr' else v
        T.assume(dot(v, v) > 0)
    theta = fit_regress(model, data_in, method=method, normalize=False, **kw)
    # reference problem on the kept entries
    vec = [[D[r, k] for k in keep] for r in range(cfg['n_rdm'])]
    if method.endswith('_cov'):
        m_sel = sorted(idx) if idx is not None else list(range(n))
        Vfull = v_matrix(len(m_sel), [sref[i] for i in m_sel] if sref else None)
        pos = [j for j, k in enumerate(sel) if k is not None]
        Vinv = mat_inv([[Vfull[a][b] for b in pos] for a in pos])
        rows = []
        for v in vec:
            x = center(v) if base == 'corr' else v
            nrm = sqrt(quad(x, Vinv, x))
            rows.append([a / nrm for a in x])
        y = [total(rw[j] for rw in rows) / len(rows) for j in range(len(keep))]
    else:
        y = [x for x in ref_pool(vec, base)]
        Vinv = None
    X = [[Bv[j, k] for k in keep] for j in range(cfg['n_basis'])]
    if base == 'corr':
        X = [center(x) for x in X]
        y = center(y)
    P = cfg['n_basis']
    if Vinv is None:
        G = [[dot(X[a], X[b]) for b in range(P)] for a in range(P)]
        rhs = [dot(X[a], y) for a in range(P)]
    else:
        G = [[quad(X[a], Vinv, X[b]) for b in range(P)] for a in range(P)]
        rhs = [quad(X[a], Vinv, y) for a in range(P)]
    key = f"C08:regress:{method}" + (':idx' if idx is not None else '') + (':sigma' if sk is not None else '')
    gt = [total(G[a][b] * theta[b] for b in range(P)) for a in range(P)]
    T.eq('normal equations (selected conditions, bootstrap multiplicity)', gt, rhs, key=key)
    if cfg.get('normalize'):
        tn = fit_regress(model, data_in, method=method, normalize=True, **kw)
        s = total(t * t for t in theta)
        for a in range(P):
            T.eq(f'normalised theta[{a}]^2 |theta|^2 = theta[{a}]^2', tn[a] * tn[a] * s, theta[a] * theta[a], key=key)
            T.eq(f'normalised theta[{a}] keeps its direction', tn[a] * theta[(a + 1) % P], tn[(a + 1) % P] * theta[a], key=key)


def case_select(T, cfg):
    """fit_select returns the candidate with the highest average training similarity"""
    from rsatoolbox.model import ModelSelect
    from rsatoolbox.model.fitter import fit_select
    from rsatoolbox.rdm import compare
    Bv, D, basis, data, n, nd = _setup(T, cfg)
    method = cfg['method']
    for v in list(Bv) + list(D):
        v = center(list(v)) if method == 'corr' else list(v)
        T.assume(dot(v, v) > 0)
    model = ModelSelect('s', basis)
    best = fit_select(model, data, method=method)
    scores = [total(ref_measure(method, list(Bv[j]), list(D[r])) for r in range(cfg['n_rdm'])) / cfg['n_rdm']
              for j in range(cfg['n_basis'])]
    key = f'C08:select:{method}'
    T.concrete('index in range', 0 <= int(best) < cfg['n_basis'], str(best), key=key)
    for j in range(cfg['n_basis']):
        T.holds(f'selected candidate {int(best)} scores at least as high as {j}', scores[int(best)] >= scores[j], key=key)


class _OptTap:
    """contract stub for scipy.optimize.minimize_scalar inside rsatoolbox.model.fitter (in the symbolic run AND in the
    float replay): call i returns the harness input W[i] (any point of the bounds) and the objective evaluated there,
    so what is proved holds for whichever point the real Brent search returns; optimality itself is not modelled"""

    def __init__(self, W):
        import sys
        self.mod = sys.modules['rsatoolbox.model.fitter']
        self.real = self.mod.opt
        self.W = W
        self.calls = []

    def __enter__(self):
        tap, real = self, self.real

        class _Res:
            def __init__(self, x, fun):
                self.x, self.fun, self.success = x, fun, True

        class _Opt:
            def minimize_scalar(self, fun, *a, **k):
                x = tap.W[len(tap.calls)]
                f = np.asarray(fun(x))
                f = f.flat[0] if f.size == 1 else f
                tap.calls.append((x, f))
                return _Res(x, f)

            def __getattr__(self, name):
                return getattr(real, name)
        self.mod.opt = _Opt()
        return self

    def __exit__(self, *a):
        self.mod.opt = self.real
        return False


def case_interpolate(T, cfg):
    """fit_interpolate: the objective handed to the scalar optimiser for pair i is minus the mean training similarity
    of the prediction w*b_i + (1-w)*b_{i+1} ALONE (no weight on any other basis RDM), and the returned theta is the
    adjacent mixture of the pair with the lowest reported loss.  The Brent search itself is a contract stub."""
    from rsatoolbox.model import ModelInterpolate
    from rsatoolbox.model.fitter import fit_interpolate
    Bv, D, basis, data, n, nd = _setup(T, cfg, positive=True)
    method = cfg['method']
    nb, nr = cfg['n_basis'], cfg['n_rdm']
    model = ModelInterpolate('i', basis)
    kw = {}
    if cfg.get('pattern_idx') is not None:
        kw = dict(pattern_idx=np.array(cfg['pattern_idx']), pattern_descriptor='cond')
    W = T.arr('w', (nb - 1,), lo=0, hi=1)
    with _OptTap(W) as tap:
        theta = fit_interpolate(model, data, method=method, **kw)
    key = f'C08:interpolate:{method}'
    T.concrete('one optimiser call per adjacent pair', len(tap.calls) == nb - 1, str(len(tap.calls)), key=key)
    T.concrete('theta has one weight per basis RDM', np.shape(theta) == (nb,), str(np.shape(theta)), key=key)
    sel = _selected_pairs(n, cfg['pattern_idx']) if cfg.get('pattern_idx') is not None else list(range(nd))
    keep = [k for k in sel if k is not None]
    losses = []
    for i, (w, f) in enumerate(tap.calls):
        w = w if not isinstance(w, np.ndarray) else w.flat[0]
        pred = [w * Bv[i, k] + (1 - w) * Bv[i + 1, k] for k in keep]
        T.assume(dot(pred, pred) > 0)
        want = -total(ref_measure(method, pred, [D[r, k] for k in keep]) for r in range(nr)) / nr
        f = f if not isinstance(f, np.ndarray) else f.flat[0]
        T.eq(f'objective of pair {i} is the loss of the pair mixture alone', f, want, key=key + ':objective')
        losses.append((f, w))
    # argmin over the reported losses (first minimum), decided by forking comparisons
    best = 0
    for i in range(1, len(losses)):
        if bool(losses[i][0] < losses[best][0]):
            best = i
    want_theta = [0] * nb
    want_theta[best] = losses[best][1]
    want_theta[best + 1] = 1 - losses[best][1]
    T.eq('theta = adjacent mixture of the best pair', list(theta), want_theta, key=key + ':theta')


def case_nn(T, cfg):
    """fit_regress_nn: Karush-Kuhn-Tucker conditions of the non-negative least squares problem on every path"""
    from rsatoolbox.model import ModelWeighted
    from rsatoolbox.model.fitter import fit_regress_nn
    Bv, D, basis, data, n, nd = _setup(T, cfg, positive=cfg.get('positive', False))
    method = cfg['method']
    for r in range(cfg['n_rdm']):
        v = list(D[r])
        v = center(v) if method == 'corr' else v
        T.assume(dot(v, v) > 0)
    model = ModelWeighted('w', basis)
    theta = fit_regress_nn(model, data, method=method, normalize=False)
    y = ref_pool([list(r) for r in D], method)
    X = [list(Bv[j]) for j in range(cfg['n_basis'])]
    if method == 'corr':
        X = [center(x) for x in X]
        y = center(y)
    P = cfg['n_basis']
    key = f'C08:nn:{method}'
    eps = Fraction(1, 10**9)
    for a in range(P):
        T.holds(f'theta[{a}] >= 0', theta[a] >= 0, key=key)
        grad = dot(X[a], y) - total(dot(X[a], X[b]) * theta[b] for b in range(P))     # -dLoss/dtheta_a / 2
        # complementary slackness: gradient vanishes on the active set, is <= eps elsewhere
        T.holds(f'KKT[{a}]: gradient <= eps', grad <= eps, key=key)
        T.holds(f'KKT[{a}]: theta>0 => gradient = 0', (theta[a] <= 0) | (grad == 0) if T.symbolic else
                (theta[a] <= 0 or abs(grad) < 1e-9), key=key)


def case_predict(T, cfg):
    """vector and RDM-object predictions agree, are linear in the weights, carry descriptors; dict round trip"""
    import rsatoolbox.model as M
    from rsatoolbox.model.model import model_from_dict
    Bv, D, basis, data, n, nd = _setup(T, cfg)
    cls = cfg['cls']
    key = f'C08:predict:{cls}'
    nb = cfg['n_basis']
    if cls == 'ModelFixed':
        from rsatoolbox.rdm import RDMs
        src = basis[0] if cfg.get('from_obj', True) else Bv[0].copy()
        m = M.ModelFixed('f', src)
        th = None
        want = list(Bv[0])
    elif cls == 'ModelSelect':
        m = M.ModelSelect('s', basis if cfg.get('from_obj', True) else Bv.copy())
        th = 1
        want = list(Bv[1])
    else:
        m = getattr(M, cls)('w', basis if cfg.get('from_obj', True) else Bv.copy())
        th = T.arr('th', (nb,), positive=True)
        want = [total(th[j] * Bv[j, k] for j in range(nb)) for k in range(nd)]
    pv = m.predict(th) if th is not None else m.predict()
    po = m.predict_rdm(th) if th is not None else m.predict_rdm()
    T.eq('vector prediction', pv, want, key=key)
    T.eq('rdm-object prediction', po.get_vectors()[0], want, key=key)
    if cfg.get('from_obj', True):
        T.concrete('prediction carries the condition descriptors',
                   list(po.pattern_descriptors.get('cond', [])) == ['c%d' % i for i in range(n)],
                   str(po.pattern_descriptors), key=key)
    m2 = model_from_dict(m.to_dict())
    T.concrete('rebuilt model class and name', type(m2).__name__ == cls and m2.name == m.name, key=key)
    pv2 = m2.predict(th) if th is not None else m2.predict()
    T.eq('model rebuilt from its dictionary predicts identically', pv2, want, key=key)


CASES = dict(regress=case_regress, select=case_select, nn=case_nn, predict=case_predict, interpolate=case_interpolate)
MAX_PATHS = dict(quick=600, thorough=5000)
ASSUME_SQRT_ARGS_POSITIVE = True
SKIP_UNKNOWN_BRANCHES = True
FEAS_TIMEOUT_MS = 3000
CFG_BUDGET_S = dict(quick=150, thorough=300)


def configs(tier):
    quick = tier == 'quick'
    out = []
    for method in ['cosine', 'corr', 'cosine_cov', 'corr_cov']:
        out.append(dict(case='regress', method=method, n_cond=3, n_basis=2, n_rdm=2, normalize=(method == 'cosine')))
        if method != 'corr':       # corr on 6 entries: 32 min-shift paths and z3 unknown -> 3 conditions only
            out.append(dict(case='regress', method=method, n_cond=4, n_basis=2, n_rdm=1))
        # pattern index selections with repeats (bootstrap multiplicity -> missing copy pairs)
        out.append(dict(case='regress', method=method, n_cond=4, n_basis=2, n_rdm=1, pattern_idx=[0, 1, 3]))
        out.append(dict(case='regress', method=method, n_cond=4, n_basis=2, n_rdm=2, pattern_idx=[2, 0, 2, 3]))
        if method.endswith('_cov'):
            out.append(dict(case='regress', method=method, n_cond=3, n_basis=2, n_rdm=2, sigma='cvector'))
            out.append(dict(case='regress', method=method, n_cond=4, n_basis=2, n_rdm=1, sigma='cvector'))
    for method in ['cosine', 'corr']:
        out.append(dict(case='select', method=method, n_cond=3, n_basis=2, n_rdm=2 if method == 'cosine' else 1))
        out.append(dict(case='select', method=method, n_cond=3, n_basis=3, n_rdm=1))
        if not quick:
            out.append(dict(case='select', method=method, n_cond=4, n_basis=2, n_rdm=1))
    out.append(dict(case='interpolate', method='cosine', n_cond=3, n_basis=3, n_rdm=1))
    out.append(dict(case='interpolate', method='cosine', n_cond=3, n_basis=2, n_rdm=2))
    if not quick:
        out.append(dict(case='interpolate', method='cosine', n_cond=4, n_basis=3, n_rdm=1))
        out.append(dict(case='interpolate', method='cosine', n_cond=3, n_basis=4, n_rdm=1))
        out.append(dict(case='interpolate', method='corr', n_cond=3, n_basis=3, n_rdm=1))
    for cls in ['ModelFixed', 'ModelSelect', 'ModelWeighted', 'ModelInterpolate']:
        for from_obj in [True, False]:
            out.append(dict(case='predict', cls=cls, n_cond=3, n_basis=2, n_rdm=1, from_obj=from_obj))
        out.append(dict(case='predict', cls=cls, n_cond=4, n_basis=3, n_rdm=1, from_obj=True))
    return out
