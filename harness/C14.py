"""C14 -- noise covariance is the pooled residual covariance; precision is its inverse."""
import itertools
from fractions import Fraction

import numpy as np

from harness.common import rgs, labels_for, as_desc, total, mean_rows, dot, triu_pairs
from symx.core import R
from symx.run import sqrt

PROP = 'C14'
METHODS = ['full', 'diag', 'shrinkage_eye', 'shrinkage_diag']


def _min(a, b):
    if isinstance(a, R) or isinstance(b, R):
        from symx.core import ite
        return ite(R.lift(a) <= R.lift(b), a, b)      # no fork on the oracle side
    return a if a <= b else b


def _clamp01(x):
    if isinstance(x, R):
        from symx.core import ite
        return ite(x < 0, 0, ite(x > 1, 1, x))
    return min(max(x, 0.0), 1.0)


def residuals_by_label(X, labels):
    means = {l: mean_rows([list(X[i]) for i in range(len(labels)) if labels[i] == l]) for l in set(labels)}
    return [[X[i][k] - means[labels[i]][k] for k in range(len(X[0]))] for i in range(len(labels))]


def crossprod(Rm):
    P = len(Rm[0])
    return [[total(r[i] * r[j] for r in Rm) for j in range(P)] for i in range(P)]


def ref_cov(Rm, dof, method, T):
    """reference estimate from a residual matrix Rm (rows already centred as required)"""
    n, P = len(Rm), len(Rm[0])
    XX = crossprod(Rm)
    S = [[XX[i][j] / dof for j in range(P)] for i in range(P)]
    if method == 'full':
        return S, None
    if method == 'diag':
        return [[S[i][j] if i == j else 0 * S[i][j] for j in range(P)] for i in range(P)], None
    if method == 'shrinkage_eye':
        s = [[XX[i][j] / n for j in range(P)] for i in range(P)]
        m = total(s[i][i] for i in range(P)) / P
        d2 = total((s[i][j] - (m if i == j else 0)) * (s[i][j] - (m if i == j else 0))
                   for i in range(P) for j in range(P))
        b2raw = total((r[i] * r[j] - s[i][j]) * (r[i] * r[j] - s[i][j]) for r in Rm
                      for i in range(P) for j in range(P)) / (n * n)
        b2 = _min(d2, b2raw)
        lam = b2 / d2
        mS = total(S[i][i] for i in range(P)) / P
        return [[lam * (mS if i == j else 0) + (1 - lam) * S[i][j] for j in range(P)] for i in range(P)], lam
    if method == 'shrinkage_diag':
        var = [S[i][i] for i in range(P)]
        num = 0
        den = 0
        for i in range(P):
            for j in range(P):
                if i == j:
                    continue
                # standardised cross-products w_k = r_ki r_kj / (std_i std_j); only even powers of std occur
                p_ = [r[i] * r[j] for r in Rm]
                wm2 = (total(p_) * total(p_)) / (var[i] * var[j]) / ((n - 1) * (n - 1))
                w2m = total(x * x for x in p_) / (var[i] * var[j]) / (n - 1)
                num = num + (w2m - wm2) * n / (dof * dof)
                den = den + wm2
        lam = _clamp01(num / den)
        return [[S[i][j] if i == j else (1 - lam) * S[i][j] for j in range(P)] for i in range(P)], lam
    raise ValueError(method)


def _range01(T, label, lam, method, key):
    """shrinkage intensity in [0,1].  The reference intensity is min(d2,b2)/d2 (Ledoit-Wolf: d2 and b2 are sums
    of squares by construction) or an explicit clamp (Schaefer-Strimmer); the solver discharges the claim on the
    abstraction  B = sum of squares y_i^2, D = sum of squares z_i^2 > 0, lam = min(D,B)/D  (z3 cannot decide the
    expanded degree-8 polynomials directly: `unknown` at 10 s)."""
    if not T.symbolic:
        T.concrete(label, -1e-12 <= float(lam) <= 1 + 1e-12, str(lam), key=key)
        return
    import z3
    from symx import core
    y1, y2, z1, z2, lamv = z3.Reals('y1 y2 z1 z2 lam')
    Bv, Dv = y1 * y1 + y2 * y2, z1 * z1 + z2 * z2
    if method == 'shrinkage_eye':
        cons = [Dv > 0, lamv == z3.If(Dv <= Bv, Dv, Bv) / Dv]
    else:
        raw = z3.Real('raw')
        cons = [lamv == z3.If(raw < 0, 0, z3.If(raw > 1, 1, raw))]
    r = core.check(cons + [z3.Or(lamv < 0, lamv > 1)])
    T.concrete(label + ' (abstraction, solver)', r == 'unsat', r, key=key)
    T.concrete(label + ' (abstraction satisfiable)', core.check(cons) == 'sat', key=key)


def _check_est(T, tag, got, Rm, dof, method, key):
    want, lam = ref_cov(Rm, dof, method, T)
    T.eq(tag, got, np.array(want, dtype=object if T.symbolic else float), key=key)
    P = len(Rm[0])
    if lam is not None:
        _range01(T, f'{tag} shrinkage in [0,1]', lam, method, key)
    # symmetry
    T.eq(f'{tag} symmetric', [got[i][j] for i, j in triu_pairs(P)], [got[j][i] for i, j in triu_pairs(P)], key=key)


def case_residuals(T, cfg):
    from rsatoolbox.data.noise import cov_from_residuals
    n, P = cfg['n'], cfg['P']
    X = T.arr('x', (n, P))
    dof = cfg.get('dof')
    got = cov_from_residuals(X.copy(), dof=dof, method=cfg['method'])
    cm = mean_rows([list(r) for r in X])
    Rm = [[X[i][k] - cm[k] for k in range(P)] for i in range(n)]
    key = f"C14:residuals:{cfg['method']}"
    _check_est(T, 'cov', got, Rm, dof if dof is not None else n - 1, cfg['method'], key)
    if cfg['method'] == 'full':
        # positive semi-definite: v' S v is a sum of squares over dof (identity), hence >= 0
        v = T.arr('v', (P,))
        q = total(v[i] * got[i][j] * v[j] for i in range(P) for j in range(P))
        sos = total(dot(r, list(v)) * dot(r, list(v)) for r in Rm) / (dof if dof is not None else n - 1)
        T.eq('psd: quadratic form is a sum of squares', q, sos, key=key)


def _ds(T, cfg, name='x', pattern=None):
    from rsatoolbox.data import Dataset
    pat = pattern or cfg['pattern']
    X = T.arr(name, (len(pat), cfg['P']))
    labels = labels_for(pat, cfg['labkind'], cfg.get('perm'))
    ds = Dataset(X.copy(), obs_descriptors={'cond': as_desc(labels, cfg.get('container', 'array'))})
    return ds, X, labels


def case_unbalanced(T, cfg):
    from rsatoolbox.data.noise import cov_from_unbalanced
    ds, X, labels = _ds(T, cfg)
    dof = cfg.get('dof')
    got = cov_from_unbalanced(ds, 'cond', dof=dof, method=cfg['method'])
    Rm = residuals_by_label([list(r) for r in X], labels)
    d = dof if dof is not None else len(labels) - len(set(labels))
    _check_est(T, 'cov', got, Rm, d, cfg['method'], f"C14:unbalanced:{cfg['method']}")
    T.eq('input unmodified', ds.measurements, X, key='C14:unbalanced:mutation')


def case_measurements(T, cfg):
    """balanced design: measurement-based estimator = pooled residual covariance, dof = obs - conds,
    and agrees with the unbalanced estimator"""
    from rsatoolbox.data.noise import cov_from_measurements, cov_from_unbalanced
    ds, X, labels = _ds(T, cfg)
    dof = cfg.get('dof')
    got = cov_from_measurements(ds, 'cond', dof=dof, method=cfg['method'])
    Rm = residuals_by_label([list(r) for r in X], labels)
    # rows of the residual matrix are processed condition-major inside; order is irrelevant for the estimate
    d = dof if dof is not None else len(labels) - len(set(labels))
    _check_est(T, 'cov', got, Rm, d, cfg['method'], f"C14:measurements:{cfg['method']}")
    if cfg.get('agree'):
        ub = cov_from_unbalanced(ds, 'cond', dof=dof, method=cfg['method'])
        T.eq('measurements == unbalanced', got, ub, key=f"C14:agree:{cfg['method']}")
    T.eq('input unmodified', ds.measurements, X, key='C14:measurements:mutation')


def case_lists(T, cfg):
    """list inputs: one estimate per element using that element's dof"""
    from rsatoolbox.data.noise import cov_from_residuals, cov_from_measurements
    P = cfg['P']
    dofs = cfg['dofs']
    key = f"C14:lists:{cfg['kind']}:{'dof' + type(dofs).__name__ if dofs is not None else 'nodof'}"
    if cfg['kind'] == 'residuals':
        Xs = [T.arr(f'x{i}', (n, P)) for i, n in enumerate(cfg['ns'])]
        got = cov_from_residuals([x.copy() for x in Xs] if cfg.get('aslist', True) else np.array([x.copy() for x in Xs]),
                                 dof=dofs, method=cfg['method'])
        T.concrete('one estimate per element', len(got) == len(Xs), str(len(got)), key=key)
        for i, X in enumerate(Xs):
            cm = mean_rows([list(r) for r in X])
            Rm = [[X[a][k] - cm[k] for k in range(P)] for a in range(len(X))]
            d = (dofs[i] if isinstance(dofs, (list, tuple)) else dofs) if dofs is not None else len(X) - 1
            _check_est(T, f'cov{i}', got[i], Rm, d, cfg['method'], key)
    else:
        dss = [_ds(T, cfg, f'x{i}', pat) for i, pat in enumerate(cfg['patterns'])]
        got = cov_from_measurements([d[0] for d in dss], 'cond', dof=dofs, method=cfg['method'])
        T.concrete('one estimate per element', len(got) == len(dss), str(len(got)), key=key)
        for i, (ds, X, labels) in enumerate(dss):
            Rm = residuals_by_label([list(r) for r in X], labels)
            d = (dofs[i] if isinstance(dofs, (list, tuple)) else dofs) if dofs is not None \
                else len(labels) - len(set(labels))
            _check_est(T, f'cov{i}', got[i], Rm, d, cfg['method'], key)


def case_prec(T, cfg):
    """each returned precision is the matrix inverse of the corresponding covariance"""
    import rsatoolbox.data.noise as N
    P = cfg['P']
    key = f"C14:prec:{cfg['kind']}:{cfg['method']}"
    eye = np.eye(P)
    if cfg['kind'] == 'residuals':
        X = T.arr('x', (cfg['n'], P))
        cov = N.cov_from_residuals(X.copy(), method=cfg['method'])
        prec = N.prec_from_residuals(X.copy(), method=cfg['method'])
    elif cfg['kind'] == 'measurements':
        ds, X, labels = _ds(T, cfg)
        cov = N.cov_from_measurements(ds, 'cond', method=cfg['method'])
        prec = N.prec_from_measurements(ds, 'cond', method=cfg['method'])
    else:
        ds, X, labels = _ds(T, cfg)
        cov = N.cov_from_unbalanced(ds, 'cond', method=cfg['method'])
        prec = N.prec_from_unbalanced(ds, 'cond', method=cfg['method'])
    prod = [[total(prec[i][k] * cov[k][j] for k in range(P)) for j in range(P)] for i in range(P)]
    T.eq('prec @ cov == I', np.array(prod, dtype=object if T.symbolic else float), eye, key=key)


CASES = dict(residuals=case_residuals, unbalanced=case_unbalanced, measurements=case_measurements, lists=case_lists,
             prec=case_prec)
MAX_PATHS = dict(quick=200, thorough=400)
CFG_BUDGET_S = dict(quick=150, thorough=240)


def configs(tier):
    quick = tier == 'quick'
    out = []
    for method in METHODS:
        shr = method.startswith('shrinkage')
        # residual matrices, incl. more channels than samples
        for (n, P) in ([(3, 2), (2, 3), (4, 2)] if quick else [(3, 2), (2, 3), (4, 2), (3, 3), (4, 3), (5, 2), (2, 2)]):
            if shr and (P > 2 or n > 3):
                continue      # shrinkage estimators: residual rank <= 2 (rank 3: z3 unknown at 20-60 s) -> stated bound
            for dof in [None, n + 1]:
                out.append(dict(case='residuals', method=method, n=n, P=P, dof=dof))
        # datasets: every labelling of <=4|5 observations with >=1 repetition somewhere
        pats = [p for nn in range(3, (5 if quick else 6)) for p in rgs(nn, 2, 3) if len(set(p)) < len(p)]
        for pat in pats:
            k = max(pat) + 1
            perms = [tuple(range(k)), tuple(range(k))[::-1]] + ([(1, 2, 0)] if k == 3 else [])
            for perm in (perms if not quick else perms[1:]):
                for labkind in (['str'] if quick else ['int', 'str']):
                    # shrinkage on datasets: residual rank 1 (rank 2: 100-250 s per configuration or z3 unknown -> outside)
                    if shr and (len(pat) - k > 1 or len(pat) > 4):
                        continue
                    out.append(dict(case='unbalanced', method=method, pattern=pat, P=2, labkind=labkind, perm=perm,
                                    dof=None, container='array' if labkind == 'int' else 'list'))
        out.append(dict(case='unbalanced', method=method, pattern=(0, 1, 0, 1) if not shr else (0, 1, 0), P=2,
                        labkind='int', perm=(1, 0), dof=3))
        # balanced designs (C conds x R reps), several row orders
        for (C_, R_) in ([(2, 2), (3, 2), (2, 3)] if quick else [(2, 2), (3, 2), (2, 3), (3, 3), (4, 2)]):
            if shr and C_ * R_ > 6:
                continue
            orders = [[c for _ in range(R_) for c in range(C_)], [c for c in range(C_) for _ in range(R_)]]
            if not quick:
                orders.append(orders[0][::-1])
            if shr:
                continue    # measurement-based shrinkage (>=4 rows): z3 unknown at 60 s; shrinkage is covered on
                            # residual matrices and through the unbalanced estimator (<=3-4 rows) -> stated bound
            for o in orders:
                # relabel to restricted-growth form
                seen = {}
                pat = tuple(seen.setdefault(c, len(seen)) for c in o)
                for dof in [None] + ([] if quick else [C_ * R_]):
                    out.append(dict(case='measurements', method=method, pattern=pat, P=2, labkind='str',
                                    perm=tuple(range(C_))[::-1], dof=dof, agree=True))
        # lists
        for dofs in [None, [3, 4], 5]:
            if shr and quick:
                continue
            out.append(dict(case='lists', kind='residuals', method=method, ns=[3, 2] if not shr else [3, 3], P=2, dofs=dofs))
            if not shr:
                out.append(dict(case='lists', kind='measurements', method=method, patterns=[(0, 1, 0, 1), (0, 0, 1, 1)],
                                P=2, labkind='int', perm=(0, 1), dofs=dofs))
        if not quick:
            out.append(dict(case='lists', kind='residuals', method=method, ns=[3, 3], P=2, dofs=[3, 4], aslist=False))
        # precision
        for kind in ['residuals', 'measurements', 'unbalanced']:
            if shr:
                continue        # inverse of the piecewise-rational shrinkage estimates: z3 unknown for some shadows -> outside
            if method == 'shrinkage_eye':
                continue     # inverse of the piecewise-rational Ledoit-Wolf estimate: z3 unknown at 40 s -> outside
            for P in [2]:      # 3x3 symbolic inverse of a sample covariance: z3 does not finish -> outside
                if method == 'diag' and P == 3 and quick:
                    continue
                out.append(dict(case='prec', kind=kind, method=method, n=3 if P == 2 else 4, P=P,
                                pattern=(0, 1, 0, 1) if P == 2 else (0, 1, 0, 1, 0, 1), labkind='int', perm=(0, 1)))
    return out
