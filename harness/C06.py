"""C06 -- reported uncertainties and p-values are coherent with the evaluations."""
import itertools
from fractions import Fraction

import numpy as np
import z3

from harness.common import total, dot, center, triu_pairs
from symx import core
from symx.core import R, C
from symx.run import sqrt, isnan

PROP = 'C06'
EPS = float(np.finfo(float).eps)


def _sym_cov(T, name, n):
    """symmetric n x n symbolic matrix"""
    u = T.arr(name, (n * (n + 1) // 2,))
    M = np.empty((n, n), dtype=object if T.symbolic else float)
    k = 0
    for i in range(n):
        for j in range(i, n):
            M[i, j] = M[j, i] = u[k]
            k += 1
    if T.symbolic:
        from symx.arrays import wrap
        return wrap(M)
    return M


def _factor(n_rdm, n_pattern):
    if n_rdm is not None and n_pattern is not None:
        n = min(n_rdm, n_pattern)
    elif n_pattern is not None:
        n = n_pattern
    elif n_rdm is not None:
        n = n_rdm
    else:
        return 1
    return Fraction(n, n - 1)


def _contrasts(V, nm, nc):
    """reference contrasts of one covariance matrix V (nm models, optional 2 noise-ceiling rows at the end)"""
    model = [V[i][i] for i in range(nm)]
    diff = [V[i][i] + V[j][j] - 2 * V[i][j] for i, j in triu_pairs(nm)]
    if nc:
        ncv = [[V[i][i] - 2 * V[i][nm + c] + V[nm + c][nm + c] for c in range(2)] for i in range(nm)]
    else:
        ncv = [[V[i][i], V[i][i]] for i in range(nm)]
    return model, diff, ncv


def _ite(c, a, b, T):
    if T.symbolic:
        return core.ite(c, a, b)
    return a if c else b


def _max(a, b, T):
    return _ite(a >= b, a, b, T)


def _min(a, b, T):
    return _ite(a <= b, a, b, T)


def case_extract(T, cfg):
    from rsatoolbox.util.inference_util import extract_variances
    nm, nc = cfg['n_model'], cfg['nc']
    n_rdm, n_pattern = cfg.get('n_rdm'), cfg.get('n_pattern')
    size = nm + (2 if nc else 0)
    kind = cfg['kind']
    key = f"C06:extract:{kind}"
    f = _factor(n_rdm, n_pattern)
    if kind == 'scalar':
        v = T.arr('v', (1,))
        mv, dv, ncv = extract_variances(np.asarray(v[0]) if not T.symbolic else _zero_d(v[0]), False, n_rdm, n_pattern)
        T.eq('model variance', mv, [v[0] * f], key=key)
        return
    if kind == 'vector':
        v = T.arr('v', (size,))
        mv, dv, ncv = extract_variances(v.copy(), nc, n_rdm, n_pattern)
        T.eq('model variances', mv, [v[i] * f for i in range(nm)], key=key)
        T.eq('pairwise-difference variances (independent models)', dv, [(v[i] + v[j]) * f for i, j in triu_pairs(nm)], key=key)
        want_nc = [[(v[i] + v[nm + c]) * f if nc else v[i] * f for c in range(2)] for i in range(nm)]
        T.eq('model-vs-ceiling variances', ncv, np.array(want_nc, dtype=object if T.symbolic else float), key=key)
        return
    if kind == 'matrix':
        V = _sym_cov(T, 'v', size)
        mv, dv, ncv = extract_variances(V.copy(), nc, n_rdm, n_pattern)
        m, d, n_ = _contrasts(V, nm, nc)
        T.eq('model variances', mv, [x * f for x in m], key=key)
        T.eq('pairwise-difference variances var_i + var_j - 2 cov_ij', dv, [x * f for x in d], key=key)
        T.eq('model-vs-ceiling variances', ncv, np.array([[x * f for x in r] for r in n_], dtype=object if T.symbolic else float), key=key)
        return
    # 3-stack: [two-factor, rdm bootstrap, pattern bootstrap]
    Vs = [_sym_cov(T, f'v{k}', size) for k in range(3)]
    stack = np.array([np.asarray(v) for v in Vs], dtype=object if T.symbolic else float)
    if T.symbolic:
        from symx.arrays import wrap
        stack = wrap(stack)
    mv, dv, ncv = extract_variances(stack, nc, n_rdm, n_pattern)
    con = [_contrasts(V, nm, nc) for V in Vs]
    if n_rdm is None or n_pattern is None:
        c1 = c2 = 1
    else:
        c1, c2 = Fraction(n_rdm, n_rdm - 1), Fraction(n_pattern, n_pattern - 1)

    def dual(v0, v1, v2):
        if n_rdm is None or n_pattern is None:
            x = 2 * (v1 + v2) - v0
        else:
            x = c1 * v1 + c2 * v2 - c1 * c2 * (v0 - v1 - v2)
        return _min(_max(_max(x, c1 * v1, T), c2 * v2, T), v0, T)

    def bounds(tag, r, v0, v1, v2):
        T.holds(f'{tag}: never exceeds the two-factor bootstrap variance', r <= v0, key=key)
        if T.symbolic:
            T.holds(f'{tag}: not below a corrected single-factor variance that is itself below it',
                    ((c1 * v1 > v0) | (r >= c1 * v1)) & ((c2 * v2 > v0) | (r >= c2 * v2)), key=key)
        else:
            T.concrete(f'{tag}: lower bounds', (c1 * v1 > v0 or r >= c1 * v1 - 1e-12) and (c2 * v2 > v0 or r >= c2 * v2 - 1e-12), key=key)
    for i in range(nm):
        v0, v1, v2 = con[0][0][i], con[1][0][i], con[2][0][i]
        T.eq(f'model variance[{i}] = dual bootstrap of the contrasts', mv[i], dual(v0, v1, v2), key=key)
        bounds(f'model variance[{i}]', mv[i], v0, v1, v2)
    for k in range(len(con[0][1])):
        v0, v1, v2 = con[0][1][k], con[1][1][k], con[2][1][k]
        T.eq(f'difference variance[{k}]', dv[k], dual(v0, v1, v2), key=key)
        bounds(f'difference variance[{k}]', dv[k], v0, v1, v2)
    for i in range(nm):
        for c in range(2):
            v0, v1, v2 = con[0][2][i][c], con[1][2][i][c], con[2][2][i][c]
            T.eq(f'ceiling variance[{i},{c}]', ncv[i][c], dual(v0, v1, v2), key=key)


def _zero_d(x):
    a = np.empty((), dtype=object)
    a[()] = x
    from symx.arrays import SymArray
    return a.view(SymArray)


def tcdf_axioms():
    """contract of the Student-t cdf stub: range [0,1], non-decreasing, F(x) >= 1/2 iff x >= 0 (symmetry)"""
    atoms = [(k, arg, a) for (k, arg, a) in C.atoms if k.startswith('tcdf_')]
    ax = []
    for k, arg, a in atoms:
        ax += [a.n >= 0, a.n <= 1, z3.Implies(arg.t >= 0, a.n * 2 >= 1), z3.Implies(arg.t <= 0, a.n * 2 <= 1)]
    for (k1, x1, a1), (k2, x2, a2) in itertools.combinations(atoms, 2):
        if k1 == k2:
            ax += [z3.Implies(x1.t <= x2.t, a1.n <= a2.n), z3.Implies(x2.t <= x1.t, a2.n <= a1.n)]
    C.axioms = ax


def _cdf(x, dof):
    """the same stub the library is given (atoms merge when the arguments are provably equal)"""
    if isinstance(x, R):
        from symx.proxy import TDistStub
        return TDistStub().cdf(x, dof)
    from scipy.stats import t
    return float(t.cdf(x, dof))


def _abs(x):
    return abs(x)


def _sqrt_clamped(v, T):
    return sqrt(_max(v, R.const(EPS) if T.symbolic else EPS, T))


def case_ttests(T, cfg):
    from rsatoolbox.util.inference_util import t_tests, t_test_0, t_test_nc
    nm, ns, dof = cfg['n_model'], cfg['n_sample'], cfg['dof']
    E = T.arr('e', (ns, nm) + ((cfg['n_fold'],) if cfg.get('n_fold') else ()))
    Ein = E.copy()
    for idx in cfg.get('nan_samples', []):
        Ein[idx] = np.nan
    npair = nm * (nm - 1) // 2
    dvar = T.arr('dv', (npair,), positive=True)
    mvar = T.arr('mv', (nm,), positive=True)
    ncvar = T.arr('nv', (nm,), positive=True)
    nc = T.scalar('nc')
    key = 'C06:ttests'
    # NaN-aware model means
    ok = [s for s in range(ns) if s not in cfg.get('nan_samples', [])]
    if cfg.get('n_fold'):
        means = [total(total(E[s, m, f] for f in range(cfg['n_fold'])) / cfg['n_fold'] for s in ok) / len(ok) for m in range(nm)]
    else:
        means = [total(E[s, m] for s in ok) / len(ok) for m in range(nm)]
    p_pair = t_tests(Ein.copy(), dvar.copy(), dof)
    p_zero = t_test_0(Ein.copy(), mvar.copy(), dof)
    p_nc = t_test_nc(Ein.copy(), ncvar.copy(), nc, dof)
    # the statistic handed to the cdf is effect / sqrt(max(variance, eps)); two-sided resp. one-sided
    k = 0
    for i, j in triu_pairs(nm):
        t = (means[i] - means[j]) / _sqrt_clamped(dvar[k], T)
        want = 2 * (1 - _cdf(_abs(t), dof))
        T.eq(f'pairwise p[{i},{j}]', p_pair[i, j], want, key=key)
        T.eq(f'pairwise p[{j},{i}] symmetric', p_pair[j, i], p_pair[i, j], key=key)
        k += 1
    for i in range(nm):
        T.eq(f'unit diagonal[{i}]', p_pair[i, i], 1, key=key)
        T.eq(f'p against zero[{i}] (one-sided)', p_zero[i], 1 - _cdf(means[i] / _sqrt_clamped(mvar[i], T), dof), key=key)
        T.eq(f'p against noise ceiling[{i}] (two-sided)', p_nc[i],
             2 * (1 - _cdf(_abs((means[i] - nc) / _sqrt_clamped(ncvar[i], T)), dof)), key=key)
    if T.symbolic:
        tcdf_axioms()
        for p in list(np.asarray(p_pair).reshape(-1)) + list(p_zero) + list(p_nc):
            T.holds('p in [0,1]', (p >= 0) & (p <= 1), key=key)
        # monotone: at equal variance a larger effect never yields a larger p-value
        if nm >= 3:
            C.assume.append(dvar[0].n == dvar[1].n)
            d01, d02 = means[0] - means[1], means[0] - means[2]
            T.holds('larger effect at equal variance => p not larger',
                    ~((abs(d01) >= abs(d02))) | (p_pair[0, 1] <= p_pair[0, 2]), key=key)
    else:
        allp = [float(x) for x in np.asarray(p_pair).reshape(-1)] + [float(x) for x in p_zero] + [float(x) for x in p_nc]
        T.concrete('p in [0,1]', all(0 <= x <= 1 for x in allp), str(allp), key=key)


def case_equivariance(T, cfg):
    """permuting the order of the models permutes every output accordingly"""
    from rsatoolbox.util.inference_util import extract_variances, t_tests, t_test_0
    nm = cfg['n_model']
    perm = cfg['perm']
    V = _sym_cov(T, 'v', nm)
    E = T.arr('e', (2, nm))
    dof = 5
    key = 'C06:equivariance'
    mv, dv, ncv = extract_variances(V.copy(), False, 4, None)
    Vp = V[np.ix_(perm, perm)].copy()
    Ep = E[:, perm].copy()
    mvp, dvp, ncvp = extract_variances(Vp, False, 4, None)
    T.eq('model variances permute', mvp, [mv[perm[i]] for i in range(nm)], key=key)
    from harness.C09 import pair_index
    T.eq('difference variances permute', dvp, [dv[pair_index(nm, perm[i], perm[j])] for i, j in triu_pairs(nm)], key=key)
    T.assume(np.all(np.asarray(dv) > 0) if not T.symbolic else _all_pos(dv))
    p = t_tests(E.copy(), dv, dof)
    pp = t_tests(Ep, dvp, dof)
    for i in range(nm):
        for j in range(nm):
            T.eq(f'pairwise p permutes [{i},{j}]', pp[i, j], p[perm[i], perm[j]], key=key)


def _all_pos(v):
    b = core.B(True)
    for x in v:
        b = b & (x > 0)
    return b


def case_fixed(T, cfg):
    """eval_fixed: sem and p-values are the classical across-subject t statistics"""
    from rsatoolbox.inference import eval_fixed
    from rsatoolbox.model import ModelFixed
    from rsatoolbox.rdm import RDMs, compare
    n_sub, nm = cfg['n_rdm'], cfg['n_model']
    D = T.arr('d', (n_sub, 3), positive=True)
    Mv = T.arr('m', (nm, 3), positive=True)
    data = RDMs(D.copy())
    models = [ModelFixed(f'm{i}', Mv[i].copy()) for i in range(nm)]
    res = eval_fixed(models, data, method='cosine')
    key = 'C06:fixed'
    ev = [[dot(list(Mv[i]), list(D[s])) / (sqrt(dot(list(Mv[i]), list(Mv[i]))) * sqrt(dot(list(D[s]), list(D[s]))))
           for s in range(n_sub)] for i in range(nm)]
    T.eq('evaluations = per-subject similarities', res.evaluations[0], np.array(ev, dtype=object if T.symbolic else float), key=key)
    T.concrete('dof = subjects - 1', res.dof == n_sub - 1, str(res.dof), key=key)
    means = [total(e) / n_sub for e in ev]
    T.eq('means', res.get_means(), means, key=key)
    # squared standard error = sample variance (ddof=1) / n
    for i in range(nm):
        c = center(ev[i])
        T.eq(f'model variance[{i}] = s^2/n', res.model_var[i], dot(c, c) / (n_sub - 1) / n_sub, key=key)
    # stored covariance = population covariance of the per-subject evaluations / n ; together with the contrast
    # identities of case_extract (var_i + var_j - 2 cov_ij, factor n/(n-1)) this is the paired-t variance s_diff^2/n
    got_ev = res.evaluations[0]
    for i in range(nm):
        for j in range(i, nm):
            ci = center([got_ev[i, s] for s in range(n_sub)])
            cj = center([got_ev[j, s] for s in range(n_sub)])
            T.eq(f'covariance[{i},{j}] across subjects / n', res.variances[i][j], dot(ci, cj) / n_sub / n_sub, key=key)
    k = 0
    for i, j in triu_pairs(nm):
        T.eq(f'difference variance[{i},{j}] = n/(n-1) (var_i + var_j - 2 cov_ij)', res.diff_var[k],
             (res.variances[i][i] + res.variances[j][j] - 2 * res.variances[i][j]) * Fraction(n_sub, n_sub - 1), key=key)
        k += 1
    sem = res.get_sem()
    for i in range(nm):
        T.eq(f'sem[{i}]^2 = model variance', sem[i] * sem[i], res.model_var[i], key=key)
        T.holds(f'sem[{i}] >= 0', sem[i] >= 0, key=key)


def case_means(T, cfg):
    """Result.get_means: NaN-aware averages of the evaluations"""
    from rsatoolbox.inference.result import Result
    from rsatoolbox.model import ModelFixed
    nm = cfg['n_model']
    shape = tuple(cfg['shape'])
    E = T.arr('e', shape)
    Ein = E.copy()
    for s in cfg.get('nan_samples', []):
        Ein[s] = np.nan
    models = [ModelFixed(f'm{i}', np.ones(3)) for i in range(nm)]
    res = Result(models, Ein, method='cosine', cv_method=cfg['cv_method'], noise_ceiling=np.array([0.5, 0.8]))
    ok = [s for s in range(shape[0]) if s not in cfg.get('nan_samples', [])]
    want = []
    for m in range(nm):
        vals = []
        for s in ok:
            sub = E[s, m]
            vals.append(total(np.asarray(sub).reshape(-1)) / np.asarray(sub).size if np.ndim(sub) else sub)
        want.append(total(vals) / len(vals))
    T.eq('means', res.get_means(), want, key=f"C06:means:{cfg['cv_method']}")


CASES = dict(extract=case_extract, ttests=case_ttests, equivariance=case_equivariance, fixed=case_fixed, means=case_means)
ASSUME_SQRT_ARGS_POSITIVE = True
SKIP_UNKNOWN_BRANCHES = True
FEAS_TIMEOUT_MS = 3000


def configs(tier):
    quick = tier == 'quick'
    out = [dict(case='extract', kind='scalar', n_model=1, nc=False, n_rdm=5, n_pattern=None),
           dict(case='extract', kind='scalar', n_model=1, nc=False)]
    ns = [(None, None), (5, None), (None, 7), (5, 7), (9, 4)]
    for kind in ['vector', 'matrix', 'stack']:
        for nm in ([2, 3] if quick else [1, 2, 3, 4]):
            for nc in [False, True]:
                for (n_rdm, n_pattern) in (ns if nm == 2 or not quick else ns[3:]):
                    out.append(dict(case='extract', kind=kind, n_model=nm, nc=nc, n_rdm=n_rdm, n_pattern=n_pattern))
    if quick:
        # pair ORDER only shows with >= 4 models (first-index-major and second-index-major orders agree up to 3)
        for kind in ['vector', 'matrix', 'stack']:
            for nc in [False, True]:
                out.append(dict(case='extract', kind=kind, n_model=4, nc=nc, n_rdm=5, n_pattern=7))
    out.append(dict(case='ttests', n_model=3, n_sample=2, dof=4))
    out.append(dict(case='ttests', n_model=2, n_sample=3, dof=7, nan_samples=[1]))
    out.append(dict(case='ttests', n_model=2, n_sample=2, dof=3, n_fold=2))
    if not quick:
        out.append(dict(case='ttests', n_model=4, n_sample=2, dof=9))
    for perm in ([[1, 0, 2], [2, 0, 1]] if quick else [list(p) for p in itertools.permutations(range(3))][1:]):
        out.append(dict(case='equivariance', n_model=3, perm=perm))
    out.append(dict(case='fixed', n_rdm=3, n_model=2))
    if not quick:
        out.append(dict(case='fixed', n_rdm=2, n_model=3))
    out.append(dict(case='means', n_model=2, shape=[3, 2], cv_method='bootstrap', nan_samples=[1]))
    out.append(dict(case='means', n_model=2, shape=[1, 2, 3], cv_method='fixed'))
    out.append(dict(case='means', n_model=2, shape=[3, 2, 2, 2], cv_method='bootstrap_crossval', nan_samples=[0]))
    return out
