"""C04 -- each stored evaluation is the direct comparison of prediction and resampled data."""
import itertools
from collections import Counter
from fractions import Fraction

import numpy as np

from harness.common import total, dot, center, triu_pairs
from harness.C03 import ref_measure
from harness.C07 import ref_pool, sim
from harness.C09 import pair_index
from symx.run import sqrt, isnan

PROP = 'C04'


def _setup(T, cfg):
    from rsatoolbox.rdm import RDMs
    from rsatoolbox.model import ModelFixed
    n_rdm, n = cfg['n_rdm'], cfg['n_cond']
    nd = n * (n - 1) // 2
    D = T.arr('d', (n_rdm, nd), positive=True)
    Mv = T.arr('m', (cfg['n_model'], nd), positive=True)
    data = RDMs(D.copy(), rdm_descriptors={'subj': list(cfg.get('rgroups') or range(n_rdm))},
                pattern_descriptors={'cond': ['c%d' % i for i in range(n)]})
    models = [ModelFixed(f'm{i}', Mv[i].copy()) for i in range(cfg['n_model'])]
    return D, Mv, data, models, n, nd


def sample_vectors(D, Mv, n, rdm_rows, conds):
    """data vectors and model vectors of a resample: rows rdm_rows, conditions conds (sorted, with multiplicity);
    pairs of two copies of one condition are missing"""
    conds = sorted(conds)
    pairs = [(a, b) for a, b in itertools.combinations(range(len(conds)), 2)]
    idx = [None if conds[a] == conds[b] else pair_index(n, conds[a], conds[b]) for a, b in pairs]
    dv = [[np.nan if k is None else D[r, k] for k in idx] for r in rdm_rows]
    mv = [[np.nan if k is None else Mv[j, k] for k in idx] for j in range(Mv.shape[0])]
    return dv, mv


def ref_eval(mvec, dvecs, method='cosine'):
    return total(sim(method, mvec, d) for d in dvecs) / len(dvecs)


def ref_ceiling(dvecs, groups, method='cosine'):
    ug = list(dict.fromkeys(groups))
    if len(ug) == 1:
        p = ref_pool(dvecs, method)
        s = total(sim(method, p, d) for d in dvecs) / len(dvecs)
        return s, s
    pall = ref_pool(dvecs, method)
    los, his = [], []
    for g in ug:
        test = [dvecs[i] for i in range(len(dvecs)) if groups[i] == g]
        rest = [dvecs[i] for i in range(len(dvecs)) if groups[i] != g]
        prest = ref_pool(rest, method)
        los.append(total(sim(method, prest, t) for t in test) / len(test))
        his.append(total(sim(method, pall, t) for t in test) / len(test))
    return total(los) / len(los), total(his) / len(his)


def _cov_rows(rows):
    """sample covariance (ddof=1) of the rows (variables) over their columns (samples)"""
    k = len(rows[0])
    c = [center(r) for r in rows]
    return [[dot(a, b) / (k - 1) for b in c] for a in c]


def case_boot(T, cfg):
    from rsatoolbox import inference as I
    D, Mv, data, models, n, nd = _setup(T, cfg)
    routine = cfg['routine']
    N = cfg['N']
    n_rdm = cfg['n_rdm']
    rgroups = list(cfg.get('rgroups') or range(n_rdm))
    rby = 'subj' if cfg.get('rgroups') else 'index'
    urg = list(np.unique(np.array(rgroups)))
    per_r = len(urg) if routine in ('rdm', 'both') else 0
    per_p = n if routine in ('pattern', 'both') else 0
    per = per_r + per_p
    if cfg.get('exhaustive_samples', N) < N:
        T.limit_draws(per * cfg['exhaustive_samples'], cfg['fixed'])
    kw = dict(method='cosine', N=N, boot_noise_ceil=cfg.get('boot_nc', True))
    if routine == 'rdm':
        res = I.eval_bootstrap_rdm(models, data, rdm_descriptor=rby, **kw)
    elif routine == 'pattern':
        res = I.eval_bootstrap_pattern(models, data, rdm_descriptor=rby, **kw)
    else:
        res = I.eval_bootstrap(models, data, rdm_descriptor=rby, **kw)
    draws = T.draws()
    key = f'C04:boot:{routine}'
    T.concrete('number of draws', len(draws) == per * N, f'{len(draws)} vs {per * N}', key=key)
    ev = res.evaluations
    T.concrete('evaluation array shape', tuple(ev.shape) == (N, cfg['n_model']), str(ev.shape), key=key)
    ok = []
    nc_ref = []
    for i in range(N):
        d = draws[i * per:(i + 1) * per]
        dr, dp = d[:per_r], d[per_r:]
        rows = [r for g in dr for r in range(n_rdm) if rgroups[r] == urg[g]] if per_r else list(range(n_rdm))
        conds = list(dp) if per_p else list(range(n))
        sgroups = [rgroups[r] for r in rows]
        dv, mv = sample_vectors(D, Mv, n, rows, conds)
        small = per_p and len(set(conds)) < 3
        if small:
            for j in range(cfg['n_model']):
                T.concrete(f'sample {i}: too few conditions -> NaN', bool(isnan(ev[i, j])), str(ev[i, j]), key=key)
            continue
        ok.append(i)
        for j in range(cfg['n_model']):
            T.eq(f'sample {i} model {j}: mean similarity of the prediction at the drawn conditions and the sample rdms',
                 ev[i, j], ref_eval(mv[j], dv), key=key)
        if cfg.get('boot_nc', True):
            lo, hi = ref_ceiling(dv, sgroups)
            nc_ref.append((lo, hi))
            T.eq(f'sample {i}: noise ceiling of the same resample', [res.noise_ceiling[0][i], res.noise_ceiling[1][i]],
                 [lo, hi], key=key)
    exp_dof = {'rdm': len(urg) - 1 if cfg.get('rgroups') else n_rdm - 1, 'pattern': n - 1,
               'both': min(n_rdm, n) - 1}[routine]
    T.concrete('dof', res.dof == exp_dof, f'{res.dof} vs {exp_dof}', key=key + ':dof')
    T.concrete('cv_method', res.cv_method == {'rdm': 'bootstrap_rdm', 'pattern': 'bootstrap_pattern', 'both': 'bootstrap'}[routine], key=key)
    T.concrete('n_rdm / n_pattern', res.n_rdm == n_rdm and res.n_pattern == n, f'{res.n_rdm} {res.n_pattern}', key=key)
    # covariance = sample covariance across the evaluable resamples of the stored per-resample values
    if len(ok) >= 2:
        rows = [[ev[i, j] for i in ok] for j in range(cfg['n_model'])]
        if cfg.get('boot_nc', True) and routine != 'rdm':
            rows += [[res.noise_ceiling[c][i] for i in ok] for c in range(2)]
        want = _cov_rows(rows)
        T.eq('covariance across resamples', res.variances, np.array(want, dtype=object if T.symbolic else float)
             if len(rows) > 1 else want[0][0], key=key + ':cov')


def case_bootcv(T, cfg):
    """bootstrap_crossval with k_pattern = k_rdm = 1 (train = test = the resample): stored evaluations, noise
    ceilings, dof and covariance; the RDM draws of the first resample and its internal shuffles are exhaustive"""
    from rsatoolbox import inference as I
    D, Mv, data, models, n, nd = _setup(T, cfg)
    N = cfg['N']
    n_rdm = cfg['n_rdm']
    boot_type = cfg['boot_type']
    if cfg.get('limit') is not None:
        T.limit_draws(cfg['limit'], cfg['fixed'])
    res = I.bootstrap_crossval(models, data, method='cosine', k_pattern=1, k_rdm=1, N=N, n_cv=1, boot_type=boot_type,
                               use_correction=False)
    draws = T.draws()
    key = f'C04:bootcv:{boot_type}'
    ev = res.evaluations
    T.concrete('evaluation array shape', tuple(ev.shape) == (N, cfg['n_model'], 1, 1), str(ev.shape), key=key)
    # the resamples are recovered from the observed draws: the first n_rdm (rdm) / n (pattern) draws of each resample
    # select the groups; the remaining choice points of the resample are the internal k-fold shuffles
    pos = 0
    ok = []
    for i in range(N):
        if boot_type == 'rdm':
            dr = draws[pos:pos + n_rdm]
            rows = list(dr)
            conds = list(range(n))
            pos += n_rdm
            uniq_r = len(set(dr))
            pos += uniq_r                                      # permutation of the unique rdm groups: one choice per element
            pos += n                                           # permutation of the conditions
        else:
            dp = draws[pos:pos + n]
            rows = list(range(n_rdm))
            conds = list(dp)
            pos += n
            if len(set(dp)) >= 3:           # only evaluable resamples run the internal (shuffled) k-fold
                pos += n_rdm
                pos += len(set(dp))
        dv, mv = sample_vectors(D, Mv, n, rows, conds)
        if boot_type == 'pattern' and len(set(conds)) < 3:
            T.concrete(f'sample {i}: too few conditions -> NaN', bool(isnan(ev[i, 0, 0, 0])), str(ev[i, 0, 0, 0]), key=key)
            continue
        ok.append(i)
        for j in range(cfg['n_model']):
            T.eq(f'sample {i} model {j}', ev[i, j, 0, 0], ref_eval(mv[j], dv), key=key)
        lo, hi = ref_ceiling(dv, rows if boot_type == 'rdm' else list(range(n_rdm)))
        T.eq(f'sample {i}: noise ceiling of the same resample', [res.noise_ceiling[0][i][0], res.noise_ceiling[1][i][0]],
             [lo, hi], key=key)
    T.concrete('all draws accounted for', pos == len(draws), f'{pos} vs {len(draws)}', key=key)
    T.concrete('dof', res.dof == ((n_rdm if boot_type == 'rdm' else n) - 1), str(res.dof), key=key + ':dof')
    T.concrete('cv_method', res.cv_method == 'bootstrap_crossval_' + boot_type, res.cv_method, key=key)
    if len(ok) >= 2:
        rows_ = [[ev[i, j, 0, 0] for i in ok] for j in range(cfg['n_model'])] + \
                [[res.noise_ceiling[c][i][0] for i in ok] for c in range(2)]
        T.eq('covariance across resamples', res.variances, np.array(_cov_rows(rows_), dtype=object if T.symbolic else float),
             key=key + ':cov')


def case_crossval(T, cfg):
    """crossval: fitter sees the training fold only, score = similarity of the prediction at the fitted parameters
    restricted to the test conditions with the test rdms; folds with <=2 conditions are NaN (shared with C05)"""
    from harness.C05 import case_leak
    return case_leak(T, cfg)


CASES = dict(boot=case_boot, crossval=case_crossval, bootcv=case_bootcv)
MAX_PATHS = dict(quick=1200, thorough=70000)
ASSUME_SQRT_ARGS_POSITIVE = True
SKIP_UNKNOWN_BRANCHES = True
FEAS_TIMEOUT_MS = 3000
CFG_BUDGET_S = dict(quick=280, thorough=3000)


def configs(tier):
    quick = tier == 'quick'
    out = []
    out.append(dict(case='boot', routine='rdm', n_rdm=2, n_cond=3, n_model=2, N=2))
    out.append(dict(case='boot', routine='rdm', n_rdm=3, n_cond=3, n_model=1, N=2, rgroups=[0, 1, 1]))
    out.append(dict(case='boot', routine='rdm', n_rdm=2, n_cond=3, n_model=1, N=2, boot_nc=False))
    out.append(dict(case='boot', routine='pattern', n_rdm=2, n_cond=3, n_model=2, N=2, exhaustive_samples=1, fixed=[0, 1, 2]))
    out.append(dict(case='boot', routine='pattern', n_rdm=2, n_cond=3, n_model=1, N=2, exhaustive_samples=1, fixed=[2, 1, 0],
                    boot_nc=False))
    out.append(dict(case='boot', routine='both', n_rdm=2, n_cond=3, n_model=1, N=2, exhaustive_samples=1, fixed=[0, 1, 0, 1, 2]))
    out.append(dict(case='crossval', gen='k_fold_pattern', n_rdm=2, n_cond=7, rgroups=[0, 1], pgroups=None, gkind='int',
                    container='array', positive=True, k=3))
    out.append(dict(case='crossval', gen='k_fold', n_rdm=3, n_cond=6, rgroups=[0, 1, 2], pgroups=None, gkind='int',
                    container='array', positive=True, k=2, k_rdm=2))
    out.append(dict(case='bootcv', boot_type='rdm', n_rdm=2, n_cond=3, n_model=1, N=2, limit=7, fixed=[0, 1, 0, 0, 0, 0, 0]))
    if not quick:
        out.append(dict(case='bootcv', boot_type='pattern', n_rdm=2, n_cond=3, n_model=1, N=2, limit=8,
                        fixed=[0, 1, 2, 0, 0, 0, 0, 0]))
        out.append(dict(case='boot', routine='rdm', n_rdm=3, n_cond=3, n_model=1, N=2))
        out.append(dict(case='boot', routine='pattern', n_rdm=2, n_cond=4, n_model=1, N=2, exhaustive_samples=1, fixed=[0, 1, 2, 3]))
        out.append(dict(case='boot', routine='pattern', n_rdm=2, n_cond=3, n_model=1, N=2))
        out.append(dict(case='boot', routine='rdm', n_rdm=2, n_cond=3, n_model=1, N=3))
    return out
