"""C10 -- RDM container operations never change which value belongs to which pair.

Reference model: an object is (rn, pn, rd, pd): names of its RDMs and conditions in order plus the remaining
descriptor columns.  Names are unique per source RDM / source condition, so the value of entry (r, i, j) must be
THE source variable V[rn[r], {pn[i], pn[j]}]  (NaN for copy pairs and pairs absent from a partial RDM)."""
import itertools
import math

import numpy as np

from harness.common import as_desc, triu_pairs
from harness.C09 import pair_index

PROP = 'C10'


class M:
    """reference model of an RDMs object"""

    def __init__(self, rn, pn, rd, pd, index_p=None, index_r=None, absent=frozenset()):
        self.rn, self.pn = list(rn), list(pn)
        self.rd = {k: list(v) for k, v in rd.items()}
        self.pd = {k: list(v) for k, v in pd.items()}
        self.absent = absent      # set of (rname, frozenset{pa,pb}) missing from partial RDMs

    def clone(self):
        return M(self.rn, self.pn, self.rd, self.pd, absent=self.absent)

    def sel_r(self, idx):
        return M([self.rn[i] for i in idx], self.pn, {k: [v[i] for i in idx] for k, v in self.rd.items()}, self.pd,
                 absent=self.absent)

    def sel_p(self, idx):
        return M(self.rn, [self.pn[i] for i in idx], self.rd, {k: [v[i] for i in idx] for k, v in self.pd.items()},
                 absent=self.absent)


class Src:
    """source variables: one symbolic value per (source rdm, unordered pair of source conditions)"""

    def __init__(self):
        self.V = {}

    def add(self, T, name, n_rdm, pnames, r0, nan_at=()):
        n = len(pnames)
        D = T.arr(name, (n_rdm, n * (n - 1) // 2))
        if nan_at:
            D = D.copy()
        for r in range(n_rdm):
            for i, j in triu_pairs(n):
                k = pair_index(n, i, j)
                if (r, k) in nan_at:
                    D[r, k] = np.nan
                self.V['r%d' % (r0 + r), frozenset((pnames[i], pnames[j]))] = D[r, k]
        return D


def build(T, cfg, src, name, n_rdm, pnames, r0, subj, grp, nan_at=()):
    from rsatoolbox.rdm import RDMs
    D = src.add(T, name, n_rdm, pnames, r0, nan_at)
    cont = cfg['container']
    n = len(pnames)
    pd = {'name': list(pnames), 'grp': [grp[int(p[1:])] for p in pnames]}
    rd = {'rname': ['r%d' % (r0 + r) for r in range(n_rdm)], 'subj': list(subj)}
    obj = RDMs(D, dissimilarity_measure='m', descriptors={'study': 's'},
               rdm_descriptors={k: as_desc(v, cont) for k, v in rd.items()},
               pattern_descriptors={k: as_desc(v, cont) for k, v in pd.items()})
    return obj, M(rd['rname'], pd['name'], rd, pd)


def check(T, tag, obj, m, src, key):
    """labelled content of obj == model"""
    rn = [str(x) for x in obj.rdm_descriptors.get('rname', [])]
    pn = [str(x) for x in obj.pattern_descriptors.get('name', [])]
    if not T.concrete(f'{tag}: rdms present', rn == m.rn, f'{rn} vs {m.rn}', key=key):
        return False
    if not T.concrete(f'{tag}: conditions present', pn == m.pn, f'{pn} vs {m.pn}', key=key):
        return False
    nd = len(pn) * (len(pn) - 1) // 2
    ok = T.concrete(f'{tag}: sizes', obj.n_rdm == len(rn) and obj.n_cond == len(pn) and
                    tuple(obj.dissimilarities.shape) == (len(rn), nd),
                    f'n_rdm={obj.n_rdm} n_cond={obj.n_cond} shape={obj.dissimilarities.shape}', key=key)
    if not ok:
        return False
    want = []
    for r in rn:
        row = []
        for i, j in triu_pairs(len(pn)):
            kk = (r, frozenset((pn[i], pn[j])))
            if pn[i] == pn[j] or kk in m.absent or kk not in src.V:
                row.append(np.nan)
            else:
                row.append(src.V[kk])
        want.append(row)
    if nd and rn:
        T.eq(f'{tag}: values', obj.dissimilarities, np.array(want, dtype=object if T.symbolic else float), key=key)
    for k, v in m.rd.items():
        got = [str(x) for x in obj.rdm_descriptors.get(k, [])]
        T.concrete(f'{tag}: rdm descriptor {k}', got == [str(x) for x in v], f'{got} vs {v}', key=key)
    for k, v in m.pd.items():
        got = [str(x) for x in obj.pattern_descriptors.get(k, [])]
        T.concrete(f'{tag}: pattern descriptor {k}', got == [str(x) for x in v], f'{got} vs {v}', key=key)
    return True


def check_forms(T, tag, obj, key):
    """vector and square forms describe the same symmetric zero-diagonal matrices"""
    vec = obj.get_vectors()
    mat = obj.get_matrices()
    n = obj.n_cond
    T.concrete(f'{tag}: matrix shape', tuple(mat.shape) == (obj.n_rdm, n, n), str(mat.shape), key=key)
    if tuple(mat.shape) != (obj.n_rdm, n, n) or n < 2:
        return
    up, lo, dg = [], [], []
    for r in range(obj.n_rdm):
        for i, j in triu_pairs(n):
            up.append(mat[r, i, j])
            lo.append(mat[r, j, i])
        dg += [mat[r, i, i] for i in range(n)]
    flat = list(np.asarray(vec).reshape(-1))
    T.eq(f'{tag}: upper == vector', up, flat, key=key)
    T.eq(f'{tag}: lower == vector', lo, flat, key=key)
    T.eq(f'{tag}: zero diagonal', dg, [0] * len(dg), key=key)


# ---------------------------------------------------------------- operations: (obj, model) -> (obj, model)

def _vals(m, by, which='p'):
    d = m.pd if which == 'p' else m.rd
    return d[by]


def op_getitem(arg):
    def f(T, obj, m, env):
        idx = arg
        if isinstance(idx, (list, tuple)) and max(idx) >= len(m.rn):
            return obj, m
        if len(m.pn) < 2:
            return obj, m       # RDMs over fewer than two conditions have no entries; indexing them raises (degenerate, noted)
        o2 = obj[idx]
        if isinstance(idx, (list, tuple)) and max(idx) >= len(m.rn):
            return obj, m
        if isinstance(idx, int):
            sel = [idx % len(m.rn)]
        elif isinstance(idx, slice):
            sel = list(range(len(m.rn)))[idx]
        else:
            sel = list(idx)
        return o2, m.sel_r(sel)
    return f


def op_iter(T, obj, m, env):
    parts = list(obj)
    T.concrete('iteration yields one object per rdm', len(parts) == len(m.rn), str(len(parts)), key='C10:iter')
    for i, p in enumerate(parts):
        check(T, f'iter[{i}]', p, m.sel_r([i]), env['src'], 'C10:iter')
    return obj, m


def op_subset(by, value):
    def f(T, obj, m, env):
        vals = value if isinstance(value, (list, tuple)) else [value]
        sel = [i for i, v in enumerate(m.rd[by]) if v in vals]
        return obj.subset(by, value), m.sel_r(sel)
    return f


def op_subsample(by, value):
    def f(T, obj, m, env):
        vals = value if isinstance(value, (list, tuple)) else [value]
        sel = [i for v in vals for i, d in enumerate(m.rd[by]) if d == v]
        return obj.subsample(by, value), m.sel_r(sel)
    return f


def op_subset_pattern(by, value):
    def f(T, obj, m, env):
        if by not in m.pd:
            return obj, m
        vals = value if isinstance(value, (list, tuple)) else [value]
        sel = [i for i, v in enumerate(m.pd[by]) if v in vals]
        return obj.subset_pattern(by, value), m.sel_p(sel)
    return f


def op_subsample_pattern(by, value):
    def f(T, obj, m, env):
        if by not in m.pd:
            return obj, m
        vals = value if isinstance(value, (list, tuple)) else [value]
        sel = sorted(i for v in vals for i, d in enumerate(m.pd[by]) if d == v)
        return obj.subsample_pattern(by, value), m.sel_p(sel)
    return f


def op_copy(T, obj, m, env):
    return obj.copy(), m.clone()


def op_dict(T, obj, m, env):
    from rsatoolbox.rdm.rdms import rdms_from_dict
    import copy
    d = obj.to_dict()
    T.concrete('dict keys', set(d) == {'dissimilarities', 'descriptors', 'rdm_descriptors', 'pattern_descriptors',
                                       'dissimilarity_measure'}, str(set(d)), key='C10:dict')
    return rdms_from_dict(d), m.clone()


def op_reorder(perm):
    def f(T, obj, m, env):
        p = [x for x in perm if x < len(m.pn)]
        if sorted(p) != list(range(len(m.pn))):
            p = list(range(len(m.pn)))[::-1]
        obj.reorder(np.array(p) if env['cfg']['container'] == 'array' else list(p))
        return obj, m.sel_p(p)
    f.inplace = True
    return f


def op_sort_alpha(by):
    def f(T, obj, m, env):
        if by not in m.pd:
            return obj, m
        keys = m.pd[by]
        order = sorted(range(len(keys)), key=lambda i: keys[i])     # python sort is stable
        obj.sort_by(**{by: 'alpha'})
        return obj, m.sel_p(order)
    f.inplace = True
    return f


def op_sort_list(T, obj, m, env):
    names = sorted(set(m.pn), reverse=True)
    if len(names) != len(m.pn):
        return obj, m           # explicit orders require unique values
    obj.sort_by(name=list(names) if env['cfg']['container'] == 'list' else np.array(names))
    return obj, m.sel_p([m.pn.index(x) for x in names])


op_sort_list.inplace = True


def op_append(T, obj, m, env):
    other, mo = env['other']()
    if mo.pn != m.pn or set(mo.rn) & set(m.rn) or obj.dissimilarity_measure != other.dissimilarity_measure:
        return obj, m           # append is positional; only meaningful for equal condition order
    obj.append(other)
    m2 = m.clone()
    m2.rn += mo.rn
    for k in m2.rd:
        m2.rd[k] += mo.rd[k]
    check(T, 'append: appended object unchanged', other, mo, env['src'], 'C10:append:arg')
    return obj, m2


op_append.inplace = True


def op_concat(mode, reorder_other=False):
    def f(T, obj, m, env):
        from rsatoolbox.rdm import concat
        other, mo = env['other']()
        if sorted(mo.pn) != sorted(m.pn) or len(set(m.pn)) != len(m.pn) or set(mo.rn) & set(m.rn) \
                or obj.dissimilarity_measure != other.dissimilarity_measure or 'p_inv' in obj.descriptors \
                or set(m.pd) != set(mo.pd):
            return obj, m
        if reorder_other:
            p = list(range(len(mo.pn)))[::-1]
            other.reorder(p)
            mo = mo.sel_p(p)
        kw = {'target_pdesc': 'name'} if mode.endswith('t') else {}
        res = concat([obj, other], **kw) if mode.startswith('list') else concat(obj, other, **kw)
        m2 = m.clone()
        m2.rn = m.rn + mo.rn
        for k in m2.rd:
            m2.rd[k] = m.rd[k] + mo.rd[k]
        # in-place operations change only their receiver: concat is not one, its arguments keep their content
        check(T, 'concat: first argument unchanged', obj, m, env['src'], 'C10:concat:arg')
        check(T, 'concat: second argument unchanged', other, mo, env['src'], 'C10:concat:arg')
        return res, m2
    return f


def op_from_partials(T, obj, m, env):
    from rsatoolbox.rdm.combine import from_partials
    if len(set(m.pn)) != len(m.pn) or len(m.pn) < 3:
        return obj, m
    a = obj.subset_pattern('name', m.pn[:-1])
    ma = m.sel_p(list(range(len(m.pn) - 1)))
    other, mo = env['other']()
    if len(set(mo.pn)) != len(mo.pn) or set(mo.rn) & set(m.rn) or 'p_inv' in obj.descriptors \
            or obj.dissimilarity_measure != other.dissimilarity_measure:
        return obj, m
    keep = [x for x in mo.pn[::-1] if x != m.pn[0]] if m.pn[0] in mo.pn else mo.pn[::-1]
    b = other.subset_pattern('name', keep)
    mb = mo.sel_p([i for i in range(len(mo.pn)) if mo.pn[i] in keep])
    # present b in reversed condition order
    p = list(range(len(mb.pn)))[::-1]
    b.reorder(p)
    mb = mb.sel_p(p)
    res = from_partials([a, b], descriptor='name')
    allp = list(dict.fromkeys(ma.pn + mb.pn))
    absent = set(m.absent)
    for r, mm in [(x, ma) for x in ma.rn] + [(x, mb) for x in mb.rn]:
        for pa, pb in itertools.combinations(allp, 2):
            if pa not in mm.pn or pb not in mm.pn:
                absent.add((r, frozenset((pa, pb))))
    m2 = M(ma.rn + mb.rn, allp, {'rname': ma.rn + mb.rn, 'subj': ma.rd['subj'] + mb.rd['subj']}, {'name': allp},
           absent=frozenset(absent))
    return res, m2


def op_permute(perm):
    def f(T, obj, m, env):
        from rsatoolbox.rdm.rdms import permute_rdms, inverse_permute_rdms
        p = [x for x in perm if x < len(m.pn)]
        if sorted(p) != list(range(len(m.pn))):
            p = list(range(len(m.pn)))[::-1]
        res = permute_rdms(obj, np.array(p))
        m2 = m.sel_p(p)
        back = inverse_permute_rdms(res)
        T.eq('inverse permutation restores the values', back.dissimilarities, obj.dissimilarities, key='C10:permute')
        T.concrete('inverse permutation restores the names', [str(x) for x in back.pattern_descriptors['name']] == m.pn,
                   str(back.pattern_descriptors['name']), key='C10:permute')
        return res, m2
    return f


def op_to_df(T, obj, m, env):
    if T.symbolic:
        # pandas stores the object column as is; rows are checked by label
        pass
    df = obj.to_df()
    n = len(m.pn)
    rows = [(r, i, j) for r in range(len(m.rn)) for i, j in triu_pairs(n)]
    T.concrete('to_df rows', len(df) == len(rows), f'{len(df)} vs {len(rows)}', key='C10:to_df')
    if len(df) == len(rows) and rows:
        T.concrete('to_df labels', [str(x) for x in df['rname']] == [m.rn[r] for r, i, j in rows] and
                   [str(x) for x in df['name_1']] == [m.pn[i] for r, i, j in rows] and
                   [str(x) for x in df['name_2']] == [m.pn[j] for r, i, j in rows], key='C10:to_df')
        T.eq('to_df values', list(df['dissimilarity']), [obj.dissimilarities[r, pair_index(n, i, j)] for r, i, j in rows],
             key='C10:to_df')
    return obj, m


def ops_table(cfg):
    n_cond, n_rdm = cfg['n_cond'], cfg['n_rdm']
    names = ['p%d' % i for i in range(n_cond)]
    t = {
        'get0': op_getitem(0), 'get-1': op_getitem(-1),
        'getlist': op_getitem([1, 0]), 'iter': op_iter,
        'subset_subj': op_subset('subj', cfg['subj'][0]), 'subset_subj_list': op_subset('subj', list(dict.fromkeys(cfg['subj']))[:2]),
        'subset_rname': op_subset('rname', 'r1'),
        'subsample_subj': op_subsample('subj', [cfg['subj'][-1], cfg['subj'][0], cfg['subj'][-1]]),
        'subsample_rname': op_subsample('rname', ['r1', 'r1', 'r0']),
        'subset_pattern_grp': op_subset_pattern('grp', cfg['grp'][0]),
        'subset_pattern_names': op_subset_pattern('name', [names[-1], names[0]]),
        'subsample_pattern_grp': op_subsample_pattern('grp', [cfg['grp'][-1], cfg['grp'][0]]),
        'subsample_pattern_names': op_subsample_pattern('name', [names[1], names[0], names[1]]),
        'subsample_pattern_triple': op_subsample_pattern('name', [names[0], names[0], names[0], names[-1]]),
        'copy': op_copy, 'dict': op_dict,
        'reorder_rev': op_reorder(list(range(n_cond))[::-1]), 'reorder_rot': op_reorder(list(range(1, n_cond)) + [0]),
        'sort_name': op_sort_alpha('name'), 'sort_grp': op_sort_alpha('grp'), 'sort_list': op_sort_list,
        'append': op_append, 'concat_args': op_concat('args'), 'concat_list': op_concat('list'),
        'concat_list_reordered': op_concat('list', True), 'concat_args_target': op_concat('argst', True),
        'from_partials': op_from_partials,
        'permute_rot': op_permute(list(range(1, n_cond)) + [0]), 'permute_rev': op_permute(list(range(n_cond))[::-1]),
        'to_df': op_to_df,
    }
    return t


def case_seq(T, cfg):
    src = Src()
    grp = cfg['grp']
    names = ['p%d' % i for i in range(cfg['n_cond'])]
    order = cfg.get('porder') or list(range(cfg['n_cond']))
    nan_at = [tuple(x) for x in cfg.get('nan_at', [])]
    obj, m = build(T, cfg, src, 'a', cfg['n_rdm'], [names[i] for i in order], 0, cfg['subj'], grp, nan_at)

    def other():
        if 'b' not in other.cache:
            other.cache['b'] = build(T, cfg, src, 'b', cfg['n_rdm_b'], names, cfg['n_rdm'], cfg['subj_b'], grp)
        o, mo = other.cache['b']
        return o.copy(), mo.clone()
    other.cache = {}
    env = dict(src=src, cfg=cfg, other=other)
    table = ops_table(cfg)
    key = 'C10:' + '>'.join(cfg['seq'])
    hist = [(obj, m.clone(), 'source')]
    cur, cm = obj, m
    for step, name in enumerate(cfg['seq']):
        op = table[name]
        if getattr(op, 'inplace', False):
            cur, cm = op(T, cur, cm, env)
            # earlier objects that are different objects must keep their labelled content
            for (o, mo, nm) in hist:
                if o is cur:
                    continue
                check(T, f'step{step} {name}: {nm} unaffected by in-place op on derived object', o, mo, src,
                      f'C10:alias:{name}')
            hist = [(o, (cm.clone() if o is cur else mo), nm) for (o, mo, nm) in hist]
        else:
            new, nm_ = op(T, cur, cm, env)
            check(T, f'step{step} {name}: receiver unchanged', cur, cm, src, f'C10:receiver:{name}')
            if new is not cur:
                hist.append((new, nm_.clone(), f'result of {name}'))
            cur, cm = new, nm_
        check(T, f'step{step} {name}', cur, cm, src, key if step else f'C10:{name}')
    check_forms(T, 'forms', cur, 'C10:forms')


def case_sizes(T, cfg):
    """the number of conditions is recovered from the vector length for every size"""
    from rsatoolbox.rdm import RDMs
    from rsatoolbox.util.rdm_utils import _get_n_from_reduced_vectors, _get_n_from_length
    bad = []
    for n in range(cfg['lo'], cfg['hi']):
        L = n * (n - 1) // 2
        got = _get_n_from_reduced_vectors(np.zeros((1, L)))
        if got != max(n, 1) or (n >= 2 and _get_n_from_length(L) != n):
            bad.append((n, got))
    T.concrete('n recovered from vector length', not bad, str(bad[:5]), key='C10:sizes')
    for n in (2, 3, 4, 7):
        r = RDMs(T.arr('z%d' % n, (1, n * (n - 1) // 2)))
        T.concrete(f'n_cond({n})', r.n_cond == n and tuple(r.get_matrices().shape) == (1, n, n), key='C10:sizes')


def case_partials(T, cfg):
    """from_partials: every partial keeps its own condition order; values land on the right label pairs"""
    from rsatoolbox.rdm.combine import from_partials
    src = Src()
    n = cfg['n_cond']
    names = ['p%d' % i for i in range(n)]
    grp = list(range(n))
    parts, models = [], []
    r0 = 0
    for k, order in enumerate(cfg['orders']):
        o, m = build(T, cfg, src, 'q%d' % k, cfg['n_rdm'], [names[i] for i in order], r0, ['s%d' % k] * cfg['n_rdm'], grp)
        parts.append(o)
        models.append(m)
        r0 += cfg['n_rdm']
    kw = {}
    if cfg.get('all_patterns'):
        kw['all_patterns'] = [names[i] for i in cfg['all_patterns']]
    res = from_partials(parts, descriptor='name', **kw)
    allp = kw.get('all_patterns') or list(dict.fromkeys(x for m in models for x in m.pn))
    absent = set()
    rn, subj = [], []
    for m in models:
        rn += m.rn
        subj += m.rd['subj']
        for r in m.rn:
            for pa, pb in itertools.combinations(allp, 2):
                if pa not in m.pn or pb not in m.pn:
                    absent.add((r, frozenset((pa, pb))))
    m2 = M(rn, allp, {'rname': rn, 'subj': subj}, {'name': allp}, absent=frozenset(absent))
    check(T, 'from_partials', res, m2, src, 'C10:partials')
    for o, m in zip(parts, models):
        check(T, 'from_partials: argument unchanged', o, m, src, 'C10:partials:arg')
    check_forms(T, 'forms', res, 'C10:forms')


CASES = dict(seq=case_seq, sizes=case_sizes, partials=case_partials)


def configs(tier):
    quick = tier == 'quick'
    out = [dict(case='sizes', lo=0, hi=400 if quick else 3000)]
    base = [dict(n_rdm=2, n_cond=3, n_rdm_b=1, subj=['s1', 's1'], subj_b=['s2'], grp=['g1', 'g0', 'g1'], container='list'),
            dict(n_rdm=3, n_cond=3, n_rdm_b=2, subj=[5, 2, 5], subj_b=[2, 7], grp=[1, 1, 0], container='array',
                 porder=[2, 0, 1])]
    if not quick:
        base += [dict(n_rdm=3, n_cond=4, n_rdm_b=1, subj=['b', 'a', 'b'], subj_b=['c'], grp=['y', 'x', 'y', 'x'],
                      container='array', porder=[1, 3, 0, 2], nan_at=[[0, 2]]),
                 dict(n_rdm=2, n_cond=4, n_rdm_b=2, subj=[1, 2], subj_b=[3, 3], grp=[0, 0, 0, 1], container='list')]
    pl = [([0, 1, 2], [3, 2, 1]), ([1, 2, 3], [0, 1, 2]), ([2, 0, 3], [3, 1, 0, 2]), ([0, 1], [2, 3]), ([3, 1, 0], [0, 3, 1])]
    for o1, o2 in pl:
        for cont in ['list', 'array']:
            out.append(dict(case='partials', n_cond=4, n_rdm=1, orders=[o1, o2], container=cont))
            out.append(dict(case='partials', n_cond=4, n_rdm=2, orders=[o2, o1], container=cont,
                            all_patterns=[3, 0, 2, 1]))
    if not quick:
        for o1 in itertools.permutations(range(4), 3):
            out.append(dict(case='partials', n_cond=4, n_rdm=1, orders=[[0, 1, 2, 3], list(o1)], container='array'))
    names = list(ops_table(dict(n_cond=3, n_rdm=2, subj=['a', 'a'], grp=['a', 'b', 'a'])).keys())
    for b in base:
        for a in names:
            out.append(dict(b, case='seq', seq=[a]))
        for a in names:
            for c in names:
                if a in ('iter', 'to_df') or (quick and b is base[1] and (names.index(a) + names.index(c)) % 3):
                    continue
                out.append(dict(b, case='seq', seq=[a, c]))
    if not quick:
        # depth 3 over the structural core
        core_ops = ['getlist', 'subsample_subj', 'subset_pattern_names', 'subsample_pattern_names', 'reorder_rot',
                    'sort_grp', 'append', 'concat_list_reordered', 'from_partials', 'permute_rot', 'copy']
        for a, c, d in itertools.product(core_ops, repeat=3):
            out.append(dict(base[1], case='seq', seq=[a, c, d]))
    return out
