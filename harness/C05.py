"""C05 -- folds partition the data and test data never influence fitting."""
import itertools
from collections import Counter

import numpy as np

from harness.common import rgs, as_desc, triu_pairs, dot
from harness.C09 import build, check_sample, GROUPVALS, pair_index

PROP = 'C05'


def _groups(vals):
    return list(np.unique(np.array(vals)))


def _members(vals, wanted):
    return [i for i, v in enumerate(vals) if v in wanted]


def _obj_groups(obj, which, by):
    d = obj.rdm_descriptors if which == 'rdm' else obj.pattern_descriptors
    return list(d[by])


def case_gen(T, cfg):
    """structure and contents of the sets returned by every fold generator"""
    import rsatoolbox.inference.crossvalsets as cv
    rdms, D, pdesc, rdesc = build(T, cfg)
    cfg = dict(cfg, _pdesc=pdesc, _rdesc=rdesc)
    gen = cfg['gen']
    pby, rby = cfg.get('pby', 'grp'), cfg.get('rby', 'subj')
    pvals = list(range(cfg['n_cond'])) if pby == 'index' else list(pdesc['grp'])
    rvals = list(range(cfg['n_rdm'])) if rby == 'index' else list(rdesc['subj'])
    key = f'C05:{gen}'
    k = cfg.get('k')
    rnd = cfg.get('random', False)
    if gen == 'loo_pattern':
        tr, te, ce = cv.sets_leave_one_out_pattern(rdms, pby)
        factor, exhaustive = 'pattern', True
    elif gen == 'loo_rdm':
        tr, te, ce = cv.sets_leave_one_out_rdm(rdms, rby)
        factor, exhaustive = 'rdm', True
    elif gen == 'k_fold_pattern':
        tr, te, ce = cv.sets_k_fold_pattern(rdms, pattern_descriptor=pby, k=k, random=rnd)
        factor, exhaustive = 'pattern', True
    elif gen == 'k_fold_rdm':
        tr, te, ce = cv.sets_k_fold_rdm(rdms, k_rdm=k, random=rnd, rdm_descriptor=rby)
        factor, exhaustive = 'rdm', True
    elif gen == 'of_k_pattern':
        tr, te, ce = cv.sets_of_k_pattern(rdms, pattern_descriptor=pby, k=k, random=rnd)
        factor, exhaustive = 'pattern', True
    elif gen == 'of_k_rdm':
        tr, te, ce = cv.sets_of_k_rdm(rdms, rdm_descriptor=rby, k=k, random=rnd)
        factor, exhaustive = 'rdm', True
    elif gen == 'k_fold':
        tr, te, ce = cv.sets_k_fold(rdms, k_rdm=cfg['k_rdm'], k_pattern=k, random=rnd, pattern_descriptor=pby,
                                    rdm_descriptor=rby)
        factor, exhaustive = 'both', True
    elif gen == 'random':
        tr, te, ce = cv.sets_random(rdms, n_rdm=cfg['n_test_rdm'], n_pattern=cfg['n_test_pattern'], n_cv=cfg['n_cv'],
                                    pattern_descriptor=pby, rdm_descriptor=rby)
        factor, exhaustive = 'both', False
    n_fold = len(tr)
    T.concrete('same number of train and test folds', len(te) == n_fold and (ce is None or len(ce) == n_fold), key=key)
    pg, rg = _groups(pvals), _groups(rvals)
    test_p_count, test_r_count = Counter(), Counter()
    sizes = []
    for f in range(n_fold):
        trn, tst = tr[f][0], te[f][0]
        tp, sp = set(_obj_groups(trn, 'pattern', pby)), set(_obj_groups(tst, 'pattern', pby))
        trg, srg = set(_obj_groups(trn, 'rdm', rby)), set(_obj_groups(tst, 'rdm', rby))
        multi = n_fold > 1 and not (gen == 'loo_rdm' and len(rg) == 1)
        if factor in ('pattern', 'both') and multi and (k is None or k > 1) and cfg.get('n_test_pattern', 1) != 0:
            T.concrete(f'fold{f}: test and training condition groups disjoint', not (tp & sp), f'{tp} & {sp}', key=key)
        if factor in ('rdm', 'both') and multi and cfg.get('k_rdm', 2) > 1 and cfg.get('n_test_rdm', 1) != 0 \
                and not (gen in ('k_fold_rdm', 'of_k_rdm') and n_fold == 1):
            T.concrete(f'fold{f}: test and training rdm groups disjoint', not (trg & srg), f'{trg} & {srg}', key=key)
        # contents: exactly the advertised RDMs and conditions (all members of each group, with multiplicity 1 here)
        for nm, o in (('train', trn), ('test', tst)) + ((('ceil', ce[f][0]),) if ce is not None else ()):
            og_p = _obj_groups(o, 'pattern', pby)
            og_r = _obj_groups(o, 'rdm', rby)
            exp_p = ['p%d' % i for i in range(cfg['n_cond']) if pvals[i] in set(og_p)]
            exp_r_idx = [i for g in list(dict.fromkeys(og_r)) for i in range(cfg['n_rdm']) if rvals[i] == g] \
                if gen in ('k_fold', 'k_fold_rdm', 'of_k_rdm', 'random') else \
                [i for i in range(cfg['n_rdm']) if rvals[i] in set(og_r)]
            check_sample(T, f'fold{f} {nm}', o, D, cfg, ['r%d' % i for i in exp_r_idx], exp_p, key)
        # returned index lists describe the objects
        if factor in ('pattern', 'both'):
            T.concrete(f'fold{f}: test index list = test condition groups', set(te[f][1]) == sp, f'{te[f][1]} vs {sp}', key=key)
            T.concrete(f'fold{f}: train index list = train condition groups', set(tr[f][1]) == tp, f'{tr[f][1]} vs {tp}', key=key)
        if ce is not None:
            c = ce[f][0]
            cp, crg = set(_obj_groups(c, 'pattern', pby)), set(_obj_groups(c, 'rdm', rby))
            if gen in ('k_fold', 'random'):
                T.concrete(f'fold{f}: ceiling set = training rdms at test conditions', cp == sp and crg == trg,
                           f'conds {cp} vs {sp}; rdms {crg} vs {trg}', key=key)
        test_p_count.update(sp)
        test_r_count.update(srg)
        sizes.append((len(sp), len(srg)))
    if exhaustive and n_fold > 1:
        if factor == 'pattern':
            T.concrete('every condition group in exactly one test fold', all(test_p_count[g] == 1 for g in pg) and
                       set(test_p_count) == set(pg), str(dict(test_p_count)), key=key)
            s = [a for a, b in sizes]
            T.concrete('fold sizes differ by at most one', max(s) - min(s) <= 1, str(s), key=key)
        if factor == 'rdm' and len(rg) > 1:
            T.concrete('every rdm group in exactly one test fold', all(test_r_count[g] == 1 for g in rg) and
                       set(test_r_count) == set(rg), str(dict(test_r_count)), key=key)
            s = [b for a, b in sizes]
            T.concrete('fold sizes differ by at most one', max(s) - min(s) <= 1, str(s), key=key)
        if factor == 'both':
            kp = k or 1
            T.concrete('every rdm group tested in k_pattern folds', all(test_r_count[g] == kp for g in rg),
                       str(dict(test_r_count)), key=key)


class Probe:
    """user-supplied fitter (the property allows any): records what it is handed, returns fresh parameters"""

    def __init__(self, T):
        self.T = T
        self.calls = []

    def __call__(self, model, data, method='cosine', pattern_idx=None, pattern_descriptor=None, sigma_k=None):
        n = len(self.calls)
        th = self.T.arr(f'theta{n}', (model.n_param,), positive=True)
        self.calls.append((data, pattern_idx, pattern_descriptor, method, th))
        return th


def case_leak(T, cfg):
    """crossval: the fitter only ever sees the fold's training set; the score is a function of theta and the
    test set only (equality with an oracle that reads nothing else => non-interference)"""
    import rsatoolbox.inference.crossvalsets as cv
    from rsatoolbox.inference import crossval
    from rsatoolbox.model import ModelWeighted
    from rsatoolbox.rdm import RDMs
    rdms, D, pdesc, rdesc = build(T, cfg)
    cfg = dict(cfg, _pdesc=pdesc, _rdesc=rdesc)
    n = cfg['n_cond']
    nd = n * (n - 1) // 2
    B_ = T.arr('basis', (2, nd), positive=True)
    basis = RDMs(B_.copy(), pattern_descriptors={'name': ['p%d' % i for i in range(n)], 'grp': list(pdesc['grp'])})
    model = ModelWeighted('w', basis)
    probe = Probe(T)
    gen = cfg['gen']
    if gen == 'k_fold_pattern':
        tr, te, ce = cv.sets_k_fold_pattern(rdms, pattern_descriptor='grp', k=cfg['k'], random=False)
    elif gen == 'loo_rdm':
        tr, te, ce = cv.sets_leave_one_out_rdm(rdms, 'subj')
    else:
        tr, te, ce = cv.sets_k_fold(rdms, k_rdm=cfg['k_rdm'], k_pattern=cfg['k'], random=False,
                                    pattern_descriptor='grp', rdm_descriptor='subj')
    pd_name = 'grp' if gen != 'loo_rdm' else 'index'
    res = crossval([model], rdms, tr, te, ce, method='cosine', fitter=probe, pattern_descriptor=pd_name,
                   calc_noise_ceil=False)
    key = f'C05:leak:{gen}'
    ev = res.evaluations
    T.concrete('one evaluation per fold', tuple(ev.shape) == (1, 1, len(tr)), str(ev.shape), key=key)
    ci = 0
    for f in range(len(tr)):
        trn, tst = tr[f][0], te[f][0]
        if trn.n_rdm == 0 or tst.n_rdm == 0 or trn.n_cond <= 2 or tst.n_cond <= 2:
            T.concrete(f'fold{f}: too small -> NaN', bool(np.isnan(ev[0, 0, f]) if not T.symbolic else ev[0, 0, f].nan),
                       str(ev[0, 0, f]), key=key)
            continue
        data, pidx, pdn, meth, th = probe.calls[ci]
        ci += 1
        # the fitter got exactly the training object of this fold (identity of content, by names)
        T.concrete(f'fold{f}: fitter sees the training rdms only', list(data.rdm_descriptors['rname']) ==
                   list(trn.rdm_descriptors['rname']) and list(data.pattern_descriptors['name']) ==
                   list(trn.pattern_descriptors['name']), key=key)
        T.eq(f'fold{f}: fitter data values', data.dissimilarities, trn.dissimilarities, key=key)
        T.concrete(f'fold{f}: fitter gets the training condition indices', list(pidx) == list(tr[f][1]),
                   f'{pidx} vs {tr[f][1]}', key=key)
        test_names = set(tst.pattern_descriptors['name']) | set()
        T.concrete(f'fold{f}: no test-only condition in the training data',
                   not (set(data.pattern_descriptors['name']) & test_names) or gen == 'loo_rdm', key=key)
        # score = mean over test rdms of cosine(prediction at theta restricted to the test conditions, test rdm)
        tn = [int(x[1:]) for x in tst.pattern_descriptors['name']]
        pairs = [pair_index(n, a, b) for a, b in itertools.combinations(tn, 2)]
        pred = [th[0] * B_[0, kk] + th[1] * B_[1, kk] for kk in pairs]
        from symx.run import sqrt
        acc = 0
        rn = [int(x[1:]) for x in tst.rdm_descriptors['rname']]
        for r in rn:
            d = [D[r, kk] for kk in pairs]
            acc = acc + dot(pred, d) / (sqrt(dot(pred, pred)) * sqrt(dot(d, d)))
        T.eq(f'fold{f}: score depends on theta and the test set only', ev[0, 0, f], acc / len(rn), key=key)


CASES = dict(gen=case_gen, leak=case_leak)
MAX_PATHS = dict(quick=800, thorough=6000)


def configs(tier):
    quick = tier == 'quick'
    out = []
    kinds = [('int', 'array'), ('str', 'list')]
    # pattern factor
    for n_cond in ([3, 4, 5] if quick else [3, 4, 5, 6]):
        for pg in ([tuple(range(n_cond))] + [p for p in rgs(n_cond, 2, n_cond - 1) if max(p) >= 1][: (4 if quick else 30)]):
            ng = max(pg) + 1
            for gkind, cont in (kinds[:1] if (quick and n_cond > 4) else kinds):
                base = dict(n_rdm=2, n_cond=n_cond, pgroups=list(pg), rgroups=None, gkind=gkind, container=cont)
                out.append(dict(base, case='gen', gen='loo_pattern'))
                for k in range(1, ng + 1):
                    out.append(dict(base, case='gen', gen='k_fold_pattern', k=k, random=False))
                    if ng <= 4 and not (quick and n_cond > 4):
                        out.append(dict(base, case='gen', gen='k_fold_pattern', k=k, random=True))
                for k in range(1, ng // 2 + 1):
                    out.append(dict(base, case='gen', gen='of_k_pattern', k=k, random=False))
    # rdm factor
    for n_rdm in ([2, 3, 4, 5] if quick else [2, 3, 4, 5, 6]):
        for rg in ([tuple(range(n_rdm))] + [p for p in rgs(n_rdm, 1, n_rdm - 1)][: (3 if quick else 20)]):
            ng = max(rg) + 1
            for gkind, cont in (kinds[:1] if quick else kinds):
                base = dict(n_rdm=n_rdm, n_cond=3, pgroups=None, rgroups=list(rg), gkind=gkind, container=cont)
                out.append(dict(base, case='gen', gen='loo_rdm'))
                for k in range(1, ng + 1):
                    out.append(dict(base, case='gen', gen='k_fold_rdm', k=k, random=False))
                    if ng <= 4 and not quick:
                        out.append(dict(base, case='gen', gen='k_fold_rdm', k=k, random=True))
                for k in range(1, ng // 2 + 1):
                    out.append(dict(base, case='gen', gen='of_k_rdm', k=k, random=False))
    # both
    for (n_rdm, n_cond, rg, pg) in [(2, 4, None, None), (3, 4, [0, 1, 1], [0, 1, 2, 2]), (4, 5, [0, 0, 1, 2], None)]:
        ngr = len(set(rg)) if rg else n_rdm
        ngp = len(set(pg)) if pg else n_cond
        for k_rdm in range(1, ngr + 1):
            for k in range(1, min(ngp, 3) + 1):
                out.append(dict(case='gen', gen='k_fold', n_rdm=n_rdm, n_cond=n_cond, rgroups=rg, pgroups=pg, gkind='str',
                                container='list', k_rdm=k_rdm, k=k, random=False))
        if n_rdm <= 3:
            for ntr, ntp in [(1, 1), (1, 2), (0, 1), (1, 0)]:
                out.append(dict(case='gen', gen='random', n_rdm=n_rdm, n_cond=3 if quick else n_cond, rgroups=None,
                                pgroups=None, gkind='int', container='array', n_test_rdm=ntr, n_test_pattern=ntp,
                                n_cv=1, rby='subj', pby='grp'))
    # folds too small to evaluate (exactly two conditions) must be marked NaN, the others evaluated
    out.append(dict(case='leak', gen='k_fold_pattern', n_rdm=2, n_cond=7, rgroups=[0, 1], pgroups=None, gkind='int',
                    container='array', positive=True, k=3))
    # leakage
    for gen, kw in [('k_fold_pattern', dict(k=2)), ('loo_rdm', dict()), ('k_fold', dict(k=2, k_rdm=2))]:
        out.append(dict(case='leak', gen=gen, n_rdm=3, n_cond=6, rgroups=[0, 1, 2], pgroups=None, gkind='int',
                        container='array', positive=True, **kw))
        if not quick:
            out.append(dict(case='leak', gen=gen, n_rdm=3, n_cond=7, rgroups=[0, 1, 1], pgroups=[0, 1, 2, 3, 4, 5, 5],
                            gkind='str', container='list', positive=True, **kw))
    return out
