"""C11 -- dataset operations keep every observation attached to its own descriptors.

Reference model DM: names of observations / channels / time points in order (unique per source item) plus the other
descriptor columns.  Entry (o, c[, t]) of any derived dataset must be THE source variable V[oname, cname(, tname)]."""
import itertools
from collections import Counter

import numpy as np

from harness.common import as_desc, total

PROP = 'C11'


class DM:
    def __init__(self, on, cn, tn, od, cd, td, dd):
        self.on, self.cn = list(on), list(cn)
        self.tn = None if tn is None else list(tn)
        self.od = {k: list(v) for k, v in od.items()}
        self.cd = {k: list(v) for k, v in cd.items()}
        self.td = None if td is None else {k: list(v) for k, v in td.items()}
        self.dd = dict(dd)

    def clone(self):
        return DM(self.on, self.cn, self.tn, self.od, self.cd, self.td, self.dd)

    def sel(self, o=None, c=None, t=None, dd=None):
        m = self.clone()
        if o is not None:
            m.on = [self.on[i] for i in o]
            m.od = {k: [v[i] for i in o] for k, v in self.od.items()}
        if c is not None:
            m.cn = [self.cn[i] for i in c]
            m.cd = {k: [v[i] for i in c] for k, v in self.cd.items()}
        if t is not None:
            m.tn = [self.tn[i] for i in t]
            m.td = {k: [v[i] for i in t] for k, v in self.td.items()}
        if dd:
            m.dd.update(dd)
        return m


def build(T, cfg, name='x'):
    from rsatoolbox.data import Dataset, TemporalDataset
    no, nc, nt = cfg['n_obs'], cfg['n_chan'], cfg.get('n_time')
    cont = cfg['container']
    on = ['o%d' % i for i in range(no)]
    cn = ['c%d' % i for i in range(nc)]
    od = {'oname': on, 'cond': cfg['cond'][:no], 'sess': cfg['sess'][:no]}
    cd = {'cname': cn, 'roi': cfg['roi'][:nc]}
    dd = {'subj': 's1'}
    V = {}
    if nt is None:
        X = T.arr(name, (no, nc))
        for i in range(no):
            for j in range(nc):
                V[on[i], cn[j]] = X[i, j]
        ds = Dataset(X, descriptors=dict(dd), obs_descriptors={k: as_desc(v, cont) for k, v in od.items()},
                     channel_descriptors={k: as_desc(v, cont) for k, v in cd.items()})
        return ds, DM(on, cn, None, od, cd, None, dd), V
    tn = ['t%d' % i for i in range(nt)]
    td = {'tname': tn, 'time': cfg['time'][:nt]}
    X = T.arr(name, (no, nc, nt))
    for i in range(no):
        for j in range(nc):
            for k in range(nt):
                V[on[i], cn[j], tn[k]] = X[i, j, k]
    ds = TemporalDataset(X, descriptors=dict(dd), obs_descriptors={k: as_desc(v, cont) for k, v in od.items()},
                         channel_descriptors={k: as_desc(v, cont) for k, v in cd.items()},
                         time_descriptors={k: np.array(v) for k, v in td.items()})
    return ds, DM(on, cn, tn, od, cd, td, dd), V


def _strs(x):
    out = []
    for v in x:
        if isinstance(v, (float, np.floating)) and float(v) == int(v):
            v = int(v)          # 1.0 and 1 are the same descriptor value
        out.append(str(v))
    return out


def check(T, tag, ds, m, V, key, descs=True):
    if not m.on:
        # an empty part (e.g. the even half of a single group) carries nothing
        return T.concrete(f'{tag}: empty', ds.n_obs == 0, str(ds.n_obs), key=key)
    on = _strs(ds.obs_descriptors.get('oname', []))
    cn = _strs(ds.channel_descriptors.get('cname', []))
    ok = T.concrete(f'{tag}: observations', on == m.on, f'{on} vs {m.on}', key=key)
    ok &= T.concrete(f'{tag}: channels', cn == m.cn, f'{cn} vs {m.cn}', key=key)
    temporal = m.tn is not None
    if temporal:
        tn = _strs(ds.time_descriptors.get('tname', []))
        ok &= T.concrete(f'{tag}: time points', tn == m.tn, f'{tn} vs {m.tn}', key=key)
    shape = (len(m.on), len(m.cn)) + ((len(m.tn),) if temporal else ())
    ok &= T.concrete(f'{tag}: shape', tuple(ds.measurements.shape) == shape and ds.n_obs == len(m.on)
                     and ds.n_channel == len(m.cn), f'{ds.measurements.shape} vs {shape}', key=key)
    if not ok:
        return False
    want = np.empty(shape, dtype=object if T.symbolic else float)
    for idx in np.ndindex(*shape):
        kk = (m.on[idx[0]], m.cn[idx[1]]) + ((m.tn[idx[2]],) if temporal else ())
        want[idx] = V[kk]
    if want.size:
        T.eq(f'{tag}: values', ds.measurements, want, key=key)
    if descs:
        for k, v in m.od.items():
            T.concrete(f'{tag}: obs descriptor {k}', _strs(ds.obs_descriptors.get(k, [])) == _strs(v),
                       f'{ds.obs_descriptors.get(k)} vs {v}', key=key)
        for k, v in m.cd.items():
            T.concrete(f'{tag}: channel descriptor {k}', _strs(ds.channel_descriptors.get(k, [])) == _strs(v),
                       f'{ds.channel_descriptors.get(k)} vs {v}', key=key)
        if temporal:
            for k, v in m.td.items():
                T.concrete(f'{tag}: time descriptor {k}', _strs(ds.time_descriptors.get(k, [])) == _strs(v),
                           f'{ds.time_descriptors.get(k)} vs {v}', key=key)
        for k, v in m.dd.items():
            T.concrete(f'{tag}: dataset descriptor {k}', str(ds.descriptors.get(k)) == str(v),
                       f'{ds.descriptors.get(k)} vs {v}', key=key)
    return True


def uniq(vals):
    return list(dict.fromkeys(vals))


# ---------------------------------------------------------------- operations: (ds, m) -> list of (ds, m)

def op_split_obs(by):
    def f(T, ds, m, V):
        parts = ds.split_obs(by)
        vals = uniq(m.od[by])
        T.concrete('split_obs: one part per value', len(parts) == len(vals), f'{len(parts)}', key='C11:split_obs')
        out = []
        for p, v in zip(parts, vals):
            # temporal datasets keep their descriptors; flat datasets record the split value
            dd = {} if m.tn is not None else {by: v}
            out.append((p, m.sel(o=[i for i, x in enumerate(m.od[by]) if x == v], dd=dd)))
        T.concrete('split_obs: partition', Counter(x for p, mm in out for x in mm.on) == Counter(m.on), key='C11:split_obs')
        return out
    return f


def op_split_channel(by):
    def f(T, ds, m, V):
        parts = ds.split_channel(by)
        vals = uniq(m.cd[by])
        T.concrete('split_channel: one part per value', len(parts) == len(vals), key='C11:split_channel')
        return [(p, m.sel(c=[i for i, x in enumerate(m.cd[by]) if x == v], dd={by: v})) for p, v in zip(parts, vals)]
    return f


def op_split_time(T, ds, m, V):
    parts = ds.split_time('time')
    vals = uniq(m.td['time'])
    T.concrete('split_time: one part per value', len(parts) == len(vals), key='C11:split_time')
    return [(p, m.sel(t=[i for i, x in enumerate(m.td['time']) if x == v])) for p, v in zip(parts, vals)]


def op_subset_obs(by, value):
    def f(T, ds, m, V):
        vals = value if isinstance(value, list) else [value]
        return [(ds.subset_obs(by, value), m.sel(o=[i for i, x in enumerate(m.od[by]) if x in vals]))]
    return f


def op_subset_channel(by, value):
    def f(T, ds, m, V):
        vals = value if isinstance(value, list) else [value]
        return [(ds.subset_channel(by, value), m.sel(c=[i for i, x in enumerate(m.cd[by]) if x in vals]))]
    return f


def op_subset_time(lo, hi):
    def f(T, ds, m, V):
        sel = [i for i, x in enumerate(m.td['time']) if lo <= x <= hi]
        if not sel:
            return [(ds, m)]        # empty selections raise inside numpy (inadmissible argument)
        return [(ds.subset_time('time', lo, hi), m.sel(t=sel))]
    return f


def op_sort_by(by):
    def f(T, ds, m, V):
        keys = m.od[by]
        order = sorted(range(len(keys)), key=lambda i: keys[i])      # stable
        ds.sort_by(by)
        return [(ds, m.sel(o=order))]
    f.inplace = True
    return f


def op_copy(T, ds, m, V):
    return [(ds.copy(), m.clone())]


def op_split_merge(by):
    def f(T, ds, m, V):
        from rsatoolbox.data.ops import merge_datasets
        parts = ds.split_obs(by)
        merged = merge_datasets(parts)
        vals = uniq(m.od[by])
        order = [i for v in vals for i, x in enumerate(m.od[by]) if x == v]
        return [(merged, m.sel(o=order))]
    return f


def op_odd_even(by):
    def f(T, ds, m, V):
        odd, even = ds.odd_even_split(by)
        vals = uniq(m.od[by])
        oi = [i for v in vals[0::2] for i, x in enumerate(m.od[by]) if x == v]
        ei = [i for v in vals[1::2] for i, x in enumerate(m.od[by]) if x == v]
        if not ei:
            T.concrete('odd_even: empty even half', even.n_obs == 0, str(even.n_obs), key='C11:odd_even')
        T.concrete('odd_even: partition', sorted(oi + ei) == list(range(len(m.on))), key='C11:odd_even')
        out = [(odd, m.sel(o=oi))]
        if ei:
            out.append((even, m.sel(o=ei)))
        return out
    return f


def op_nested(T, ds, m, V):
    odd, even = ds.nested_odd_even_split('sess', 'cond')
    oi, ei = [], []
    for s in uniq(m.od['sess']):
        rows = [i for i, x in enumerate(m.od['sess']) if x == s]
        cv = uniq([m.od['cond'][i] for i in rows])
        oi += [i for v in cv[0::2] for i in rows if m.od['cond'][i] == v]
        ei += [i for v in cv[1::2] for i in rows if m.od['cond'][i] == v]
    return [(odd, m.sel(o=oi)), (even, m.sel(o=ei))]


def op_average_by(by):
    def f(T, ds, m, V):
        from rsatoolbox.data import average_dataset_by
        avg, vals, n = average_dataset_by(ds, by)
        uv = uniq(m.od[by])
        T.concrete('average: labels in order of first appearance', _strs(vals) == _strs(uv), f'{vals}', key='C11:average')
        want = []
        cnt = []
        for v in uv:
            rows = [i for i, x in enumerate(m.od[by]) if x == v]
            cnt.append(len(rows))
            want.append([total(V[m.on[i], c] for i in rows) / len(rows) for c in m.cn])
        T.eq('average: means of exactly the rows carrying the label', avg,
             np.array(want, dtype=object if T.symbolic else float), key='C11:average')
        T.eq('average: counts', list(n), cnt, key='C11:average')
        return [(ds, m)]
    return f


def op_tensor(by):
    def f(T, ds, m, V):
        uv = uniq(m.od[by])
        cnts = {v: m.od[by].count(v) for v in uv}
        if len(set(cnts.values())) != 1:
            return [(ds, m)]
        ten, vals = ds.get_measurements_tensor(by)
        T.concrete('tensor: labels', _strs(vals) == _strs(uv), key='C11:tensor')
        want = [[[V[m.on[i], c] for i in range(len(m.on)) if m.od[by][i] == v] for c in m.cn] for v in uv]
        T.eq('tensor: values', ten, np.array(want, dtype=object if T.symbolic else float), key='C11:tensor')
        return [(ds, m)]
    return f


def op_df(T, ds, m, V):
    from rsatoolbox.data import Dataset
    df = ds.to_df('cname')
    T.concrete('to_df: one row per observation', len(df) == len(m.on), key='C11:df')
    T.concrete('to_df: obs descriptors', _strs(df['oname']) == m.on and _strs(df['cond']) == _strs(m.od['cond']),
               key='C11:df')
    for j, c in enumerate(m.cn):
        T.eq(f'to_df: column {c}', list(df[c]), [V[o, c] for o in m.on], key='C11:df')
    back = Dataset.from_df(df, channels=list(m.cn), channel_descriptor='cname')
    bm = m.clone()
    bm.cd = {'cname': m.cn}
    # descriptors that are constant over the rows come back as dataset descriptors (documented behaviour)
    ok = True
    for k, v in m.od.items():
        if len(set(_strs(v))) == 1:
            ok &= str(back.descriptors.get(k)) == str(v[0])
            bm.od.pop(k)
    T.concrete('from_df: constant obs descriptors kept as dataset descriptors', ok, str(back.descriptors), key='C11:df')
    if 'oname' in bm.od:
        check(T, 'from_df(to_df)', back, bm, V, 'C11:df')
    else:
        T.eq('from_df(to_df): values', back.measurements,
             np.array([[V[o, c] for c in m.cn] for o in m.on], dtype=object if T.symbolic else float), key='C11:df')
    return [(ds, m)]


def op_bin_time(bins):
    def f(T, ds, m, V):
        b = [np.array(x) for x in bins]
        if any(x not in m.td['time'] for bb in bins for x in bb):
            return [(ds, m)]        # bins must name time points of this dataset
        d2 = ds.copy()
        d2.time_descriptors.pop('tname')      # bin_time only knows how to bin the descriptor it bins by
        res = d2.bin_time('time', b)
        groups = [[i for i, x in enumerate(m.td['time']) if x in list(bb)] for bb in b]
        T.concrete('bin_time: shape', tuple(res.measurements.shape) == (len(m.on), len(m.cn), len(b)),
                   str(res.measurements.shape), key='C11:bin_time')
        want = np.empty((len(m.on), len(m.cn), len(b)), dtype=object if T.symbolic else float)
        for i, o in enumerate(m.on):
            for j, c in enumerate(m.cn):
                for k, g in enumerate(groups):
                    want[i, j, k] = total(V[o, c, m.tn[t]] for t in g) / len(g)
        T.eq('bin_time: means of exactly the time points of each bin', res.measurements, want, key='C11:bin_time')
        T.concrete('bin_time: time descriptor', [float(x) for x in res.time_descriptors['time']] ==
                   [float(np.mean([m.td['time'][t] for t in g])) for g in groups],
                   str(res.time_descriptors['time']), key='C11:bin_time')
        T.concrete('bin_time: obs/channel descriptors', _strs(res.obs_descriptors['oname']) == m.on and
                   _strs(res.channel_descriptors['cname']) == m.cn, key='C11:bin_time')
        return [(ds, m)]
    return f


def op_time_as_obs(T, ds, m, V):
    tv = uniq(m.td['time'])
    if len(tv) != len(m.tn):
        return [(ds, m)]        # repeated time values: not supported by time_as_observations (raises)
    res = ds.time_as_observations('time')
    rows = [(o, t) for t in range(len(m.tn)) for o in range(len(m.on))]
    key = 'C11:time_as_observations'
    ok = T.concrete('time_as_obs: shape', tuple(res.measurements.shape) == (len(rows), len(m.cn)),
                    f'{res.measurements.shape} vs {(len(rows), len(m.cn))}', key=key)
    if not ok:
        return [(ds, m)]
    want = [[V[m.on[o], c, m.tn[t]] for c in m.cn] for o, t in rows]
    T.eq('time_as_obs: every measurement with its labels', res.measurements,
         np.array(want, dtype=object if T.symbolic else float), key=key)
    T.concrete('time_as_obs: obs labels', _strs(res.obs_descriptors['oname']) == [m.on[o] for o, t in rows] and
               [float(x) for x in res.obs_descriptors['time']] == [float(m.td['time'][t]) for o, t in rows] and
               _strs(res.obs_descriptors['cond']) == _strs([m.od['cond'][o] for o, t in rows]),
               str(res.obs_descriptors), key=key)
    T.concrete('time_as_obs: channel labels', _strs(res.channel_descriptors['cname']) == m.cn, key=key)
    return [(ds, m)]


def op_time_as_chan(T, ds, m, V):
    res = ds.time_as_channels()
    key = 'C11:time_as_channels'
    cols = [(c, t) for c in range(len(m.cn)) for t in range(len(m.tn))]
    ok = T.concrete('time_as_channels: shape', tuple(res.measurements.shape) == (len(m.on), len(cols)),
                    str(res.measurements.shape), key=key)
    if not ok:
        return [(ds, m)]
    want = [[V[o, m.cn[c], m.tn[t]] for c, t in cols] for o in m.on]
    T.eq('time_as_channels: every measurement with its labels', res.measurements,
         np.array(want, dtype=object if T.symbolic else float), key=key)
    T.concrete('time_as_channels: channel labels', _strs(res.channel_descriptors['cname']) == [m.cn[c] for c, t in cols]
               and _strs(res.channel_descriptors['tname']) == [m.tn[t] for c, t in cols],
               str(res.channel_descriptors), key=key)
    T.concrete('time_as_channels: obs labels', _strs(res.obs_descriptors['oname']) == m.on, key=key)
    return [(ds, m)]


def ops_table(cfg):
    cond, sess, roi = cfg['cond'][:cfg['n_obs']], cfg['sess'][:cfg['n_obs']], cfg['roi'][:cfg['n_chan']]
    t = {
        'split_obs_cond': op_split_obs('cond'), 'split_obs_sess': op_split_obs('sess'),
        'split_channel_roi': op_split_channel('roi'),
        'subset_obs_cond': op_subset_obs('cond', cond[-1]), 'subset_obs_list': op_subset_obs('cond', uniq(cond)[:2][::-1]),
        'subset_obs_name': op_subset_obs('oname', ['o%d' % (cfg['n_obs'] - 1), 'o0']),
        'subset_channel_roi': op_subset_channel('roi', roi[0]), 'subset_channel_name': op_subset_channel('cname', ['c0']),
        'sort_cond': op_sort_by('cond'), 'sort_sess': op_sort_by('sess'), 'copy': op_copy,
        'split_merge_cond': op_split_merge('cond'),
    }
    if cfg.get('n_time') is None:
        t.update({'odd_even_cond': op_odd_even('cond'), 'odd_even_sess': op_odd_even('sess'), 'nested': op_nested,
                  'average_cond': op_average_by('cond'), 'average_sess': op_average_by('sess'),
                  'tensor_cond': op_tensor('cond'), 'df': op_df})
    else:
        tm = cfg['time'][:cfg['n_time']]
        t.update({'split_time': op_split_time, 'subset_time': op_subset_time(min(tm), sorted(tm)[len(tm) // 2]),
                  'subset_time_one': op_subset_time(max(tm), max(tm)),
                  'time_as_obs': op_time_as_obs, 'time_as_chan': op_time_as_chan})
        if len(set(tm)) == len(tm) and len(tm) >= 2:
            st = sorted(tm)
            t['bin_time'] = op_bin_time([st[:1], st[1:]])
            t['bin_time_rev'] = op_bin_time([st[1:], st[:1]])
    return t


def case_seq(T, cfg):
    ds, m, V = build(T, cfg)
    table = ops_table(cfg)
    frontier = [(ds, m)]
    src = (ds, m.clone())
    for step, name in enumerate(cfg['seq']):
        if name not in table:
            T.concrete('operation not applicable', True)
            continue
        op = table[name]
        nxt = []
        for (d, mm) in frontier[:3]:
            if not mm.on:
                continue
            before = mm.clone()
            res = op(T, d, mm, V)
            if not getattr(op, 'inplace', False):
                check(T, f'step{step} {name}: receiver unchanged', d, before, V, f'C11:receiver:{name}')
            for k, (d2, m2) in enumerate(res):
                check(T, f'step{step} {name}[{k}]', d2, m2, V, 'C11:' + '>'.join(cfg['seq'][:step + 1]))
                nxt.append((d2, m2))
            if getattr(op, 'inplace', False) and d is not src[0]:
                check(T, f'step{step} {name}: source unaffected by in-place op on derived object', src[0], src[1], V,
                      f'C11:alias:{name}')
            elif getattr(op, 'inplace', False):
                src = (d, res[0][1].clone())
        frontier = nxt or frontier


CASES = dict(seq=case_seq)


def configs(tier):
    quick = tier == 'quick'
    out = []
    flat = [dict(n_obs=4, n_chan=3, cond=['b', 'a', 'b', 'c'], sess=[1, 1, 0, 0], roi=['v1', 'v2', 'v1'], container='array'),
            dict(n_obs=4, n_chan=2, cond=[2, 0, 2, 0], sess=['y', 'x', 'x', 'y'], roi=[5, 5], container='list'),
            dict(n_obs=1, n_chan=3, cond=['a'], sess=[0], roi=['r', 'q', 'r'], container='array'),
            dict(n_obs=3, n_chan=1, cond=[1, 1, 0], sess=['s', 't', 's'], roi=['r'], container='list')]
    temp = [dict(n_obs=3, n_chan=2, n_time=3, cond=['b', 'a', 'b'], sess=[1, 0, 1], roi=['v1', 'v2'], time=[0.0, 0.5, 1.0],
                 container='array'),
            dict(n_obs=2, n_chan=1, n_time=2, cond=[1, 0], sess=['x', 'x'], roi=['r'], time=[3, 1], container='array'),
            dict(n_obs=1, n_chan=2, n_time=3, cond=['a'], sess=[0], roi=['r', 'q'], time=[2, 0, 1], container='array'),
            dict(n_obs=2, n_chan=2, n_time=1, cond=['a', 'b'], sess=[0, 0], roi=['r', 'r'], time=[7], container='list'),
            dict(n_obs=3, n_chan=2, n_time=3, cond=['a', 'b', 'a'], sess=[0, 1, 1], roi=['r', 'q'], time=[1, 0, 1],
                 container='array')]
    if not quick:
        flat.append(dict(n_obs=5, n_chan=3, cond=['c', 'a', 'b', 'a', 'c'], sess=[0, 1, 0, 1, 1], roi=['x', 'y', 'x'],
                         container='array'))
        temp.append(dict(n_obs=4, n_chan=3, n_time=3, cond=[1, 0, 1, 2], sess=['a', 'b', 'b', 'a'], roi=[1, 2, 1],
                         time=[0, 2, 1], container='list'))
    for b in flat + temp:
        names = list(ops_table(b).keys())
        for a in names:
            out.append(dict(b, case='seq', seq=[a]))
        chain = [n for n in names if n not in ('average_cond', 'average_sess', 'tensor_cond', 'df', 'bin_time', 'bin_time_rev',
                                               'time_as_obs', 'time_as_chan')]
        for a in chain:
            for c in names:
                if quick and (b['n_obs'] == 1 or b['n_chan'] == 1) and names.index(c) % 2:
                    continue
                out.append(dict(b, case='seq', seq=[a, c]))
        if not quick:
            for a, c, d in itertools.product(chain[:8], chain[:8], names):
                out.append(dict(b, case='seq', seq=[a, c, d]))
    return out
