"""C07 -- upper noise ceiling is unbeatable; lower is leave-one-out and not above it."""
import itertools
from fractions import Fraction

import numpy as np

from harness.common import total, dot, vmean, center, triu_pairs
from harness.C03 import ref_measure, avg_ranks, ref_rank_measure
from symx.core import R
from symx.run import sqrt, isnan

PROP = 'C07'


def _nn(v):
    return [x for x in v if not isnan(x)]


def ref_pool(vectors, method):
    """reference pooled RDM (up to the documented normalisation) over the entries present in the first RDM"""
    keep = [k for k, x in enumerate(vectors[0]) if not isnan(x)]
    rows = []
    for v in vectors:
        w = [v[k] for k in keep]
        if method in ('cosine', 'cosine_cov'):
            a = sqrt(dot(w, w) / len(w))
            rows.append([x / a for x in w])
        elif method in ('corr', 'corr_cov'):
            c = center(w)
            sd = sqrt(dot(c, c) / len(c))
            rows.append([x / sd for x in c])
        elif method in ('rho-a', 'spearman'):
            rows.append(avg_ranks(w))
    m = [total(r[j] for r in rows) / len(rows) for j in range(len(keep))]
    if method in ('corr', 'corr_cov'):
        lo = m[0]
        for x in m[1:]:
            if bool(x < lo):
                lo = x
        m = [x - lo for x in m]
    out = [np.nan] * len(vectors[0])
    for j, k in enumerate(keep):
        out[k] = m[j]
    return out


def sim(method, a, b):
    """reference similarity between two vectors on their common non-missing entries"""
    keep = [k for k in range(len(a)) if not isnan(a[k]) and not isnan(b[k])]
    a, b = [a[k] for k in keep], [b[k] for k in keep]
    if method in ('cosine', 'corr'):
        return ref_measure(method, a, b)
    return ref_rank_measure(method, a, b)


def _data(T, cfg, name='d', positive=False):
    from rsatoolbox.rdm import RDMs
    n = cfg['n_cond']
    nd = n * (n - 1) // 2
    D = T.arr(name, (cfg['n_rdm'], nd), positive=positive)
    Din = D.copy()
    for k in cfg.get('nan_at', []):
        Din[:, k] = np.nan
    groups = cfg.get('groups') or list(range(cfg['n_rdm']))
    obj = RDMs(Din, rdm_descriptors={'subj': list(groups)}, pattern_descriptors={'cond': ['c%d' % i for i in range(n)]})
    vec = [[np.nan if k in cfg.get('nan_at', []) else D[r, k] for k in range(nd)] for r in range(cfg['n_rdm'])]
    return obj, D, vec, groups


def _assume(T, method, vecs):
    for v in vecs:
        w = _nn(v)
        if method == 'corr':
            w = center(w)
        if method in ('cosine', 'corr'):
            T.assume(dot(w, w) > 0)


def case_pool(T, cfg):
    from rsatoolbox.util.inference_util import pool_rdm
    method = cfg['method']
    obj, D, vec, groups = _data(T, cfg)
    _assume(T, method, vec)
    p = pool_rdm(obj, method)
    want = ref_pool(vec, method)
    T.eq('pooled rdm', p.dissimilarities[0], want, key=f'C07:pool:{method}')
    T.concrete('pattern descriptors kept', list(p.pattern_descriptors['cond']) == list(obj.pattern_descriptors['cond']),
               key=f'C07:pool:{method}')


def case_ceil(T, cfg):
    """bounds = mean over left-out groups of sim(pool(rest) | pool(all), left-out data)"""
    from rsatoolbox.inference import boot_noise_ceiling
    method = cfg['method']
    obj, D, vec, groups = _data(T, cfg)
    _assume(T, method, vec)
    by = 'subj' if cfg.get('groups') else 'index'
    lo, hi = boot_noise_ceiling(obj, method=method, rdm_descriptor=by)
    ug = list(dict.fromkeys(groups)) if cfg.get('groups') else list(range(cfg['n_rdm']))
    gl = groups if cfg.get('groups') else list(range(cfg['n_rdm']))
    pall = ref_pool(vec, method)
    los, his = [], []
    for g in ug:
        test = [vec[i] for i in range(len(vec)) if gl[i] == g]
        rest = [vec[i] for i in range(len(vec)) if gl[i] != g]
        if method in ('cosine', 'corr'):
            _assume(T, method, [ref_pool(rest, method), pall])
        prest = ref_pool(rest, method)
        los.append(total(sim(method, prest, t) for t in test) / len(test))
        his.append(total(sim(method, pall, t) for t in test) / len(test))
    key = f'C07:ceil:{method}'
    T.eq('lower bound = leave-one-group-out', lo, total(los) / len(los), key=key)
    T.eq('upper bound = pool of all', hi, total(his) / len(his), key=key)


def case_cv_ceil(T, cfg):
    from rsatoolbox.inference import cv_noise_ceiling
    from rsatoolbox.inference.crossvalsets import sets_k_fold
    from harness.C09 import pair_index
    method = cfg['method']
    obj, D, vec, groups = _data(T, cfg, positive=True)
    n = cfg['n_cond']
    tr, te, ce = sets_k_fold(obj, k_rdm=cfg['k_rdm'], k_pattern=cfg['k_pattern'], random=False,
                             pattern_descriptor='index', rdm_descriptor='index')
    lo, hi = cv_noise_ceiling(obj, ce, te, method=method, pattern_descriptor='index')
    los, his = [], []
    pall = ref_pool(vec, method)
    for f in range(len(te)):
        tcond = [int(x) for x in te[f][1]]
        pairs = [pair_index(n, a, b) for a, b in itertools.combinations(tcond, 2)]
        train_r = [int(x) for x in ce[f][0].rdm_descriptors['index']]
        test_r = [int(x) for x in te[f][0].rdm_descriptors['index']]
        ptrain = ref_pool([vec[i] for i in train_r], method)
        los.append(total(sim(method, [ptrain[k] for k in pairs], [vec[i][k] for k in pairs]) for i in test_r) / len(test_r))
        his.append(total(sim(method, [pall[k] for k in pairs], [vec[i][k] for k in pairs]) for i in test_r) / len(test_r))
    key = f'C07:cv_ceil:{method}'
    T.eq('cv lower bound = training rdms at the test conditions', lo, total(los) / len(los), key=key)
    T.eq('cv upper bound', hi, total(his) / len(his), key=key)


def case_optimal(T, cfg):
    """no candidate RDM beats the upper bound (cosine, corr): linking identities + solver-checked Cauchy-Schwarz"""
    import z3
    from symx import core
    from rsatoolbox.inference import boot_noise_ceiling
    from rsatoolbox.rdm import RDMs, compare
    method = cfg['method']
    obj, D, vec, groups = _data(T, cfg)
    n_rdm = cfg['n_rdm']
    m = len(vec[0])
    Cc = T.arr('c', (1, m))
    cand = list(Cc[0])
    _assume(T, method, vec + [cand])
    lo, hi = boot_noise_ceiling(obj, method=method)
    score_c = np.mean(compare(RDMs(Cc.copy()), obj, method))
    if method == 'corr':
        vec2 = [center(v) for v in vec]
        cand2 = center(cand)
    else:
        vec2, cand2 = vec, cand
    u = [total(vec2[i][k] / sqrt(dot(vec2[i], vec2[i])) for i in range(n_rdm)) for k in range(m)]
    T.assume(dot(u, u) > 0)
    key = f'C07:optimal:{method}'
    # (a) candidate score = (c.u)/(|c| n)
    T.eq('candidate score = (c.u)/(|c| n)', score_c, dot(cand2, u) / (sqrt(dot(cand2, cand2)) * n_rdm), key=key)
    # (b) upper bound = |u|/n : hi >= 0 and (hi n)^2 = u.u
    T.eq('(upper * n)^2 = u.u', hi * hi * (n_rdm * n_rdm), dot(u, u), key=key)
    T.holds('upper bound >= 0', hi >= 0, key=key)
    # (c) Cauchy-Schwarz for vectors of this length: Lagrange identity on fresh reals, then the abstraction
    if T.symbolic:
        cs = [z3.Real('cc%d' % k) for k in range(m)]
        us = [z3.Real('uu%d' % k) for k in range(m)]
        cc = sum(x * x for x in cs)
        uu = sum(x * x for x in us)
        cu = sum(x * y for x, y in zip(cs, us))
        lag = sum((cs[i] * us[j] - cs[j] * us[i]) * (cs[i] * us[j] - cs[j] * us[i]) for i, j in triu_pairs(m))
        T.concrete('Lagrange identity (solver)', core.check([cc * uu - cu * cu != lag]) == 'unsat', key=key)
        p, q, r, s1, s2 = z3.Reals('p q r s1 s2')
        cons = [p > 0, q > 0, p * q - r * r >= 0, s1 >= 0, s2 >= 0, s1 * s1 == p, s2 * s2 == q]
        T.concrete('abstract goal: (c.u)/|c| <= |u| (solver)', core.check(cons + [r > s1 * s2]) == 'unsat', key=key)
        T.concrete('abstraction satisfiable', core.check(cons) == 'sat', key=key)
    else:
        T.concrete('candidate does not beat the ceiling', float(score_c) <= float(hi) + 1e-9, f'{score_c} vs {hi}', key=key)
    # the pooled RDM attains the bound
    from rsatoolbox.util.inference_util import pool_rdm
    T.eq('pooled rdm attains the upper bound', np.mean(compare(pool_rdm(obj, method), obj, method)), hi, key=key)


def case_order2(T, cfg):
    """two singleton groups: lower <= upper through  upper^2 = (1 + lower)/2  and t <= sqrt((1+t)/2) on [-1,1]"""
    import z3
    from symx import core
    from rsatoolbox.inference import boot_noise_ceiling
    method = cfg['method']
    obj, D, vec, groups = _data(T, cfg)
    _assume(T, method, vec)
    lo, hi = boot_noise_ceiling(obj, method=method)
    key = f'C07:order:{method}'
    T.eq('2 upper^2 = 1 + lower', hi * hi * 2, lo + 1, key=key)
    T.holds('upper >= 0', hi >= 0, key=key)
    T.eq('lower = similarity of the two rdms', lo, sim(method, vec[0], vec[1]), key=key)
    if T.symbolic:
        t, h = z3.Reals('t h')
        cons = [t >= -1, t <= 1, h >= 0, 2 * h * h == 1 + t]
        T.concrete('abstract goal lower <= upper (solver)', core.check(cons + [t > h]) == 'unsat', key=key)
        T.concrete('abstraction satisfiable', core.check(cons) == 'sat', key=key)
    else:
        T.concrete('lower <= upper', float(lo) <= float(hi) + 1e-9, key=key)


def case_invariance(T, cfg):
    from rsatoolbox.inference import boot_noise_ceiling
    from rsatoolbox.rdm import RDMs
    method = cfg['method']
    obj, D, vec, groups = _data(T, cfg)
    _assume(T, method, vec)
    a = T.arr('sa', (cfg['n_rdm'],), positive=True)
    if method == 'corr':
        b = T.arr('sb', (cfg['n_rdm'],))
        D2 = [[D[i, k] * a[i] + b[i] for k in range(D.shape[1])] for i in range(cfg['n_rdm'])]
    else:
        D2 = [[D[i, k] * a[i] for k in range(D.shape[1])] for i in range(cfg['n_rdm'])]
    arr = np.array(D2, dtype=object if T.symbolic else float)
    if T.symbolic:
        from symx.arrays import wrap
        arr = wrap(arr)
    lo, hi = boot_noise_ceiling(obj, method=method)
    lo2, hi2 = boot_noise_ceiling(RDMs(arr), method=method)
    key = f'C07:invariance:{method}'
    T.eq('lower bound invariant', lo2, lo, key=key)
    T.eq('upper bound invariant', hi2, hi, key=key)


def case_nan(T, cfg):
    """entries missing from all RDMs are ignored: bounds = bounds of the entry-deleted RDMs"""
    from rsatoolbox.inference import boot_noise_ceiling
    from rsatoolbox.rdm import RDMs
    method = cfg['method']
    obj, D, vec, groups = _data(T, cfg)
    _assume(T, method, vec)
    keep = [k for k in range(D.shape[1]) if k not in cfg['nan_at']]
    small = RDMs(D[:, keep].copy())
    lo, hi = boot_noise_ceiling(obj, method=method)
    lo2, hi2 = boot_noise_ceiling(small, method=method)
    key = f'C07:nan:{method}'
    T.eq('lower bound ignores common missing entries', lo, lo2, key=key)
    T.eq('upper bound ignores common missing entries', hi, hi2, key=key)


CASES = dict(pool=case_pool, ceil=case_ceil, cv_ceil=case_cv_ceil, optimal=case_optimal, order2=case_order2,
             invariance=case_invariance, nan=case_nan)
MAX_PATHS = dict(quick=3000, thorough=20000)
SKIP_UNKNOWN_BRANCHES = True        # zero-norm pooled RDMs: outside the domain (DESIGN 3.3)
FEAS_TIMEOUT_MS = 3000
ASSUME_SQRT_ARGS_POSITIVE = True     # every norm / standard deviation the code takes a square root of is > 0


def configs(tier):
    """only obligations that z3 discharges on the unchanged tree within the timeout are claimed (DESIGN section 8):
    lower<=upper (2 upper^2 = 1+lower), scaling/affine invariance of the upper bound, the cv variant (15 entries) and
    optimality beyond 2 RDMs x 3 conditions came back `unknown` (nested sqrt atoms) and are listed as outside."""
    quick = tier == 'quick'
    out = []
    for n_rdm, n_cond in [(2, 3), (3, 3), (2, 4)] + ([] if quick else [(3, 4), (4, 3)]):
        out.append(dict(case='pool', method='cosine', n_rdm=n_rdm, n_cond=n_cond))
        out.append(dict(case='ceil', method='cosine', n_rdm=n_rdm, n_cond=n_cond))
    out.append(dict(case='pool', method='cosine', n_rdm=2, n_cond=4, nan_at=[1, 4]))
    out.append(dict(case='ceil', method='cosine', n_rdm=3, n_cond=3, groups=['a', 'b', 'a']))
    out.append(dict(case='nan', method='cosine', n_rdm=2, n_cond=4, nan_at=[0, 3, 5]))
    out.append(dict(case='optimal', method='cosine', n_rdm=2, n_cond=3))
    for n_rdm, n_cond in [(2, 3), (3, 3)]:
        out.append(dict(case='pool', method='corr', n_rdm=n_rdm, n_cond=n_cond))
    out.append(dict(case='ceil', method='corr', n_rdm=2, n_cond=3))
    out.append(dict(case='nan', method='corr', n_rdm=2, n_cond=4, nan_at=[0, 3, 5]))
    out.append(dict(case='pool', method='rho-a', n_rdm=2, n_cond=3))
    out.append(dict(case='pool', method='rho-a', n_rdm=1, n_cond=4, nan_at=[0, 2, 3]))
    out.append(dict(case='ceil', method='rho-a', n_rdm=2, n_cond=3))
    if not quick:
        out.append(dict(case='ceil', method='cosine', n_rdm=4, n_cond=3, groups=[1, 0, 1, 0]))
        out.append(dict(case='pool', method='spearman', n_rdm=2, n_cond=3))
        out.append(dict(case='pool', method='corr', n_rdm=2, n_cond=4))
    return out
