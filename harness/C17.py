"""C17 -- RDM transforms mean what they say; measures are invariant as theory dictates."""
import itertools
from fractions import Fraction

import numpy as np

from harness.common import total, dot, center, triu_pairs
from harness.C03 import sign, avg_ranks
from symx.core import R
from symx.run import sqrt, isnan

PROP = 'C17'


def _rdms(T, cfg, name='d', positive=False):
    from rsatoolbox.rdm import RDMs
    n = cfg['n_cond']
    nd = n * (n - 1) // 2
    D = T.arr(name, (cfg['n_rdm'], nd), positive=positive)
    Din = D.copy()
    for (r, k) in cfg.get('nan_at', []):
        Din[r, k] = np.nan
    pd = {'cond': ['c%d' % i for i in range(n)] if cfg.get('container', 'list') == 'list'
          else np.array(['c%d' % i for i in range(n)])}
    obj = RDMs(Din, dissimilarity_measure=cfg.get('measure', 'squared euclidean'), descriptors={'study': 's'},
               rdm_descriptors={'subj': ['s%d' % i for i in range(cfg['n_rdm'])]}, pattern_descriptors=pd)
    return obj, D


def _meta(T, res, src, measure, key):
    T.concrete('descriptors carried', res.descriptors.get('study') == 's' and
               list(res.rdm_descriptors['subj']) == list(src.rdm_descriptors['subj']) and
               [str(x) for x in res.pattern_descriptors['cond']] == [str(x) for x in src.pattern_descriptors['cond']],
               f'{res.descriptors} {res.rdm_descriptors} {res.pattern_descriptors}', key=key)
    T.concrete('measure name', res.dissimilarity_measure == measure, f'{res.dissimilarity_measure!r} vs {measure!r}', key=key)
    T.concrete('shape', res.n_rdm == src.n_rdm and res.n_cond == src.n_cond, key=key)


def ranks_of(v, method):
    """reference ranks among the non-missing entries (forks on orderings)"""
    idx = [i for i, x in enumerate(v) if not isnan(x)]
    vals = [v[i] for i in idx]
    n = len(vals)
    out = [np.nan] * len(v)
    less = [sum(1 for j in range(n) if sign(vals[j], vals[i]) < 0) for i in range(n)]
    eq = [sum(1 for j in range(n) if sign(vals[j], vals[i]) == 0) for i in range(n)]
    distinct_less = [len({less[j] for j in range(n) if less[j] < less[i]}) for i in range(n)]
    for a, i in enumerate(idx):
        if method == 'average':
            r = Fraction(2 * less[a] + eq[a] + 1, 2)
        elif method == 'min':
            r = less[a] + 1
        elif method == 'max':
            r = less[a] + eq[a]
        elif method == 'dense':
            r = distinct_less[a] + 1
        elif method == 'ordinal':
            r = less[a] + 1 + sum(1 for b in range(a) if sign(vals[b], vals[a]) == 0)
        out[i] = r
    return out


def case_rank(T, cfg):
    from rsatoolbox.rdm.transform import rank_transform
    obj, D = _rdms(T, cfg)
    res = rank_transform(obj, method=cfg['method']) if cfg['method'] != 'default' else rank_transform(obj)
    method = 'average' if cfg['method'] == 'default' else cfg['method']
    key = f"C17:rank:{method}"
    _meta(T, res, obj, 'squared euclidean (ranks)', key)
    for r in range(cfg['n_rdm']):
        want = ranks_of(list(obj.dissimilarities[r]), method)
        T.eq(f'ranks[{r}]', res.dissimilarities[r], [float(x) if not isinstance(x, float) else x for x in want], key=key)


def case_pointwise(T, cfg):
    import sys
    import rsatoolbox.rdm
    trm = sys.modules['rsatoolbox.rdm.transform']
    obj, D = _rdms(T, cfg)
    which = cfg['which']
    key = f'C17:{which}'
    nan_at = {tuple(x) for x in cfg.get('nan_at', [])}
    if which == 'sqrt':
        res = trm.sqrt_transform(obj)
        want = [[sqrt(_max0(x)) for x in row] for row in D]
        meas = {'squared euclidean': 'euclidean', 'squared mahalanobis': 'mahalanobis', None: 'sqrt of unknown measure'}.get(
            cfg.get('measure', 'squared euclidean'), 'sqrt of' + str(cfg.get('measure')))
    elif which == 'positive':
        res = trm.positive_transform(obj)
        want = [[_max0(x) for x in row] for row in D]
        meas = cfg.get('measure', 'squared euclidean')
    else:
        res = trm.transform(obj, lambda v: v * v + 1)
        want = [[x * x + 1 for x in row] for row in D]
        meas = 'transformed ' + cfg.get('measure', 'squared euclidean')
    _meta(T, res, obj, meas, key)
    # missing dissimilarities stay missing under every pointwise transform
    want = [[np.nan if (r, k) in nan_at else x for k, x in enumerate(row)] for r, row in enumerate(want)]
    T.eq('values', res.dissimilarities, np.array(want, dtype=object if T.symbolic else float), key=key)


def _max0(x):
    if isinstance(x, R):
        from symx.core import ite
        return ite(x < 0, 0, x)
    return max(x, 0.0)


def case_minmax(T, cfg):
    import sys
    import rsatoolbox.rdm
    trm = sys.modules['rsatoolbox.rdm.transform']
    obj, D = _rdms(T, cfg)
    res = trm.minmax_transform(obj)
    key = 'C17:minmax'
    _meta(T, res, obj, 'minmax transformed squared euclidean', key)
    want = []
    for row in D:
        row = list(row)
        lo = row[0]
        hi = row[0]
        for x in row[1:]:
            if bool(x < lo):
                lo = x
            if bool(x > hi):
                hi = x
        T.assume(hi > lo)
        want.append([(x - lo) / (hi - lo) for x in row])
    T.eq('values', res.dissimilarities, np.array(want, dtype=object if T.symbolic else float), key=key)


def _quantile(sorted_vals, q):
    n = len(sorted_vals)
    pos = Fraction(q).limit_denominator(10**6) * (n - 1)
    lo = int(pos)
    hi = min(lo + 1, n - 1)
    fr = pos - lo
    return sorted_vals[lo] + (sorted_vals[hi] - sorted_vals[lo]) * fr if isinstance(sorted_vals[0], R) \
        else sorted_vals[lo] + (sorted_vals[hi] - sorted_vals[lo]) * float(fr)


def _sorted(vals):
    import functools
    return sorted(vals, key=functools.cmp_to_key(lambda a, b: sign(a, b)))


def case_geotop(T, cfg):
    import sys
    import rsatoolbox.rdm
    trm = sys.modules['rsatoolbox.rdm.transform']
    obj, D = _rdms(T, cfg)
    low, up = cfg['low'], cfg['up']
    res = trm.geotopological_transform(obj, low, up)
    key = 'C17:geotopological'
    _meta(T, res, obj, 'geo-topological transformed squared euclidean', key)
    allv = _sorted([x for row in D for x in row])
    lo, hi = _quantile(allv, low), _quantile(allv, up)
    T.assume(hi > lo)
    want = []
    for row in D:
        w = []
        for x in row:
            if bool(x < lo):
                w.append(0)
            elif bool(x > hi):
                w.append(1)
            else:
                w.append((x - lo) / (hi - lo))
        want.append(w)
    T.eq('values', res.dissimilarities, np.array(want, dtype=object if T.symbolic else float), key=key)


def case_invariance(T, cfg):
    """compare(f(x), y) == compare(x, y) for the transformations under which each measure is invariant"""
    from rsatoolbox.rdm import compare, RDMs
    import sys
    import rsatoolbox.rdm
    trm = sys.modules['rsatoolbox.rdm.transform']
    method = cfg['method']
    fkind = cfg['f']
    obj, D = _rdms(T, cfg, 'a', positive=(fkind == 'sqrt'))
    other, E = _rdms(T, dict(cfg, n_rdm=1), 'b')
    key = f'C17:invariance:{method}:{fkind}'
    if method in ('cosine', 'corr'):
        from harness.C03 import _assume_nonzero
        _assume_nonzero(T, method, D, E)
    base = compare(obj.copy(), other, method)
    if fkind == 'sqrt':
        fx = trm.sqrt_transform(obj.copy())
    elif fkind == 'scale':
        a = T.scalar('sa', positive=True)
        fx = RDMs(D * a)
    elif fkind == 'affine':
        a = T.scalar('sa', positive=True)
        b = T.scalar('sb')
        fx = RDMs(D * a + b)
    elif fkind == 'cube':
        fx = trm.transform(obj.copy(), lambda v: v * v * v + v)
    elif fkind == 'rank':
        fx = trm.rank_transform(obj.copy())
    got = compare(fx, other, method)
    T.eq('similarity unchanged', got, base, key=key)


def case_geodesic(T, cfg):
    """shortest-path lengths in the min-max graph without its maximal edges (zero weights are no edges, as networkx
    builds the graph); oracle: minimum over all simple paths, enumerated explicitly"""
    import sys
    import rsatoolbox.rdm
    trm = sys.modules['rsatoolbox.rdm.transform']
    from harness.C09 import pair_index
    obj, D = _rdms(T, cfg)
    res = trm.geodesic_transform(obj)
    key = 'C17:geodesic'
    _meta(T, res, obj, 'geodesic transformed squared euclidean', key)
    n = cfg['n_cond']
    for r in range(cfg['n_rdm']):
        row = list(D[r])
        lo, hi = row[0], row[0]
        for x in row[1:]:
            if bool(x < lo):
                lo = x
            if bool(x > hi):
                hi = x
        T.assume(hi > lo)
        w = {}
        for (i, j) in triu_pairs(n):
            x = row[pair_index(n, i, j)]
            if bool(x == lo) or bool(x == hi):
                continue                      # weight 0: no edge; weight 1: maximal edge, removed
            w[(i, j)] = w[(j, i)] = (x - lo) / (hi - lo)
        want = []
        for (i, j) in triu_pairs(n):
            best = None
            others = [k for k in range(n) if k not in (i, j)]
            for m in range(len(others) + 1):
                for mid in itertools.permutations(others, m):
                    path = (i,) + mid + (j,)
                    if all((path[a], path[a + 1]) in w for a in range(len(path) - 1)):
                        length = sum((w[(path[a], path[a + 1])] for a in range(1, len(path) - 1)), w[(path[0], path[1])])
                        if best is None or bool(length < best):
                            best = length
            want.append(np.inf if best is None else best)
        T.eq(f'geodesic[{r}]', res.dissimilarities[r], want, key=key)


CASES = dict(geodesic=case_geodesic, rank=case_rank, pointwise=case_pointwise, minmax=case_minmax, geotop=case_geotop, invariance=case_invariance)
MAX_PATHS = dict(quick=3000, thorough=30000)
CFG_BUDGET_S = dict(quick=150, thorough=400)


def configs(tier):
    quick = tier == 'quick'
    out = []
    for method in ['default', 'average', 'min', 'max', 'dense', 'ordinal']:
        out.append(dict(case='rank', method=method, n_cond=3, n_rdm=1))
        out.append(dict(case='rank', method=method, n_cond=3, n_rdm=2, nan_at=[(0, 1)], container='array'))
        if not quick and method in ('average', 'min'):
            out.append(dict(case='rank', method=method, n_cond=4, n_rdm=1, nan_at=[(0, 0), (0, 5)]))
    for which in ['sqrt', 'positive', 'fun']:
        for n in [3, 4]:
            out.append(dict(case='pointwise', which=which, n_cond=n, n_rdm=2, container='array' if n == 4 else 'list'))
        out.append(dict(case='pointwise', which=which, n_cond=3, n_rdm=1, measure='squared mahalanobis'))
        out.append(dict(case='pointwise', which=which, n_cond=3, n_rdm=1, measure='correlation'))
        out.append(dict(case='pointwise', which=which, n_cond=3, n_rdm=2, nan_at=[(0, 1), (1, 1)]))
        out.append(dict(case='pointwise', which=which, n_cond=4, n_rdm=1, nan_at=[(0, 0), (0, 4)], container='array'))
    out.append(dict(case='minmax', n_cond=3, n_rdm=1))
    out.append(dict(case='minmax', n_cond=3, n_rdm=2))
    if not quick:
        out.append(dict(case='minmax', n_cond=4, n_rdm=1))
    for low, up in [(0.25, 0.75), (0.0, 1.0), (0.1, 0.5)] + ([] if quick else [(0.5, 0.9)]):
        out.append(dict(case='geotop', n_cond=3, n_rdm=1, low=low, up=up))
    out.append(dict(case='geodesic', n_cond=3, n_rdm=1))
    if not quick:
        out.append(dict(case='geodesic', n_cond=3, n_rdm=2))
    for method in ['spearman', 'rho-a', 'tau-a', 'kendall']:
        for f in ['affine', 'sqrt', 'cube']:
            out.append(dict(case='invariance', method=method, f=f, n_cond=3, n_rdm=1))
    out.append(dict(case='invariance', method='cosine', f='scale', n_cond=3, n_rdm=2))
    out.append(dict(case='invariance', method='cosine', f='scale', n_cond=4, n_rdm=1))
    out.append(dict(case='invariance', method='corr', f='affine', n_cond=3, n_rdm=2))
    out.append(dict(case='invariance', method='corr', f='affine', n_cond=4, n_rdm=1))
    out.append(dict(case='invariance', method='cosine_cov', f='scale', n_cond=3, n_rdm=1))
    out.append(dict(case='invariance', method='corr_cov', f='affine', n_cond=3, n_rdm=1))
    return out
