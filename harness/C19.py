"""C19 -- searchlights hold exactly the voxels in radius; RDMs match direct computation."""
import itertools
from fractions import Fraction

import numpy as np

from harness.common import total, dot, center, triu_pairs, mean_rows
from harness.C01 import formula
from symx.core import R

PROP = 'C19'


def _inside(T, d2, rad):
    """distance strictly below the radius, with the library's arithmetic (float sqrt of the integer squared distance)"""
    dist = float(np.sqrt(float(d2)))
    if T.symbolic:
        return bool(R.lift(dist) < rad)
    return dist < rad


def case_neighbors(T, cfg):
    from rsatoolbox.util.searchlight import _get_searchlight_neighbors
    shape = tuple(cfg['shape'])
    mask = np.ones(shape, dtype=bool)
    rad = T.arr('rad', (1,), positive=True)[0] if cfg['radius'] == 'sym' else cfg['radius']
    if cfg['radius'] == 'sym':
        T.assume(rad < cfg.get('rmax', 3))
    key = 'C19:neighbors'
    for c in cfg['centers']:
        nb = _get_searchlight_neighbors(mask, tuple(c), rad)
        got = set(zip(*nb)) if len(nb) and len(nb[0]) else set()
        T.concrete(f'center {c}: no duplicates', len(got) == (len(nb[0]) if len(nb) else 0), key=key)
        want = set()
        for v in itertools.product(*[range(s) for s in shape]):
            d2 = sum((a - b) ** 2 for a, b in zip(v, c))
            if _inside(T, d2, rad):
                want.add(v)
        T.concrete(f'center {c}: exactly the in-volume voxels strictly inside the radius', got == want,
                   f'extra {sorted(got - want)[:4]} missing {sorted(want - got)[:4]}', key=key)


def case_volume(T, cfg):
    from rsatoolbox.util.searchlight import get_volume_searchlight
    mask = np.array(cfg['mask'], dtype=bool)
    rad = cfg['radius']
    thr = T.arr('thr', (1,), positive=True)[0]
    T.assume(thr <= 1)
    centers, neighbors = get_volume_searchlight(mask, radius=rad, threshold=thr)
    key = 'C19:volume'
    shape = mask.shape
    want_centers = []
    want_nb = []
    for c in zip(*np.nonzero(mask)):
        vox = [v for v in itertools.product(*[range(s) for s in shape])
               if float(np.sqrt(float(sum((a - b) ** 2 for a, b in zip(v, c))))) < rad]
        frac = Fraction(sum(1 for v in vox if mask[v]), len(vox))
        inside = bool(R.const(frac) >= thr) if T.symbolic else (float(frac) >= thr)
        if inside:
            want_centers.append(int(np.ravel_multi_index(c, shape)))
            want_nb.append(sorted(int(np.ravel_multi_index(v, shape)) for v in vox))
    T.concrete('accepted centres = mask voxels whose searchlight lies in the mask by at least the threshold',
               [int(x) for x in centers] == want_centers, f'{list(centers)} vs {want_centers}', key=key)
    T.concrete('neighbour lists (linear indices) consistent with the centres',
               [sorted(int(x) for x in nb) for nb in neighbors] == want_nb, key=key)


def case_rdms(T, cfg):
    from rsatoolbox.util.searchlight import get_searchlight_RDMs
    n_ev, n_vox = cfg['n_events'], cfg['n_vox']
    X = T.arr('x', (n_ev, n_vox))
    events = np.array(cfg['events'])
    centers = np.array(cfg['centers'])
    neighbors = [np.array(nb) for nb in cfg['neighbors']]
    method = cfg['method']
    res = get_searchlight_RDMs(X.copy(), centers, neighbors, events, method=method)
    key = f'C19:rdms:{method}'
    T.concrete('one rdm per centre, in centre order', res.n_rdm == len(centers) and
               [int(x) for x in res.rdm_descriptors['voxel_index']] == [int(c) for c in centers], key=key)
    labels = list(np.unique(events))
    for i, nb in enumerate(neighbors[:cfg.get('check_first', len(neighbors))]):
        means = {l: mean_rows([[X[r, v] for v in nb] for r in range(n_ev) if events[r] == l]) for l in labels}
        want = [formula(method, means[labels[a]], means[labels[b]], len(nb)) for a, b in triu_pairs(len(labels))]
        T.eq(f'rdm[{i}] = direct computation on the searchlight columns', res.dissimilarities[i], want, key=key)
    if cfg.get('check_last'):
        i = len(neighbors) - 1
        nb = neighbors[i]
        means = {l: mean_rows([[X[r, v] for v in nb] for r in range(n_ev) if events[r] == l]) for l in labels}
        want = [formula(method, means[labels[a]], means[labels[b]], len(nb)) for a, b in triu_pairs(len(labels))]
        T.eq(f'rdm[{i}] (last, chunked branch)', res.dissimilarities[i], want, key=key)


def case_eval_order(T, cfg):
    """evaluate_models_searchlight returns one result per centre in centre order (n_jobs=1)"""
    from rsatoolbox.util.searchlight import evaluate_models_searchlight
    from rsatoolbox.rdm import RDMs
    D = T.arr('d', (3, 3))
    sl = RDMs(D.copy(), rdm_descriptors={'voxel_index': [7, 3, 9]})
    seen = []

    def ev(models, x, method='corr', theta=None):
        seen.append(int(x.rdm_descriptors['voxel_index'][0]))
        return x.dissimilarities[0, 0]
    out = evaluate_models_searchlight(sl, None, ev, method='cosine', n_jobs=1)
    T.concrete('one result per centre', len(out) == 3 and seen == [7, 3, 9], str(seen), key='C19:eval_order')
    T.eq('results in centre order', out, [D[0, 0], D[1, 0], D[2, 0]], key='C19:eval_order')


CASES = dict(neighbors=case_neighbors, volume=case_volume, rdms=case_rdms, eval_order=case_eval_order)
MAX_PATHS = dict(quick=400, thorough=4000)


def configs(tier):
    quick = tier == 'quick'
    out = []
    shapes = [(3, 3, 3), (2, 3, 4)] if quick else [(3, 3, 3), (2, 3, 4), (4, 4, 4), (1, 3, 5)]
    for shape in shapes:
        cs = list(itertools.product(*[range(s) for s in shape]))
        for c in (cs[::5] if quick else cs):
            out.append(dict(case='neighbors', shape=shape, centers=[list(c)], radius='sym', rmax=3 if max(shape) <= 3 else 3.5))
        for rad in [1, 1.5, 2, 2.5, 0.5]:
            out.append(dict(case='neighbors', shape=shape, centers=[list(c) for c in cs[::3]], radius=rad))
    vols = [np.ones((2, 2, 2), int).tolist()]
    rng = np.random.RandomState(3)
    for _ in range(4 if quick else 20):
        vols.append((rng.rand(2, 2, 2) > 0.35).astype(int).tolist())
    vols.append((rng.rand(3, 2, 2) > 0.3).astype(int).tolist())
    for m in vols:
        if not np.any(m):
            continue
        for rad in [1, 1.5, 2]:
            out.append(dict(case='volume', mask=m, radius=rad))
    for method in ['euclidean', 'correlation']:
        out.append(dict(case='rdms', method=method, n_events=4, n_vox=5, events=[1, 0, 1, 2], centers=[4, 0, 2],
                        neighbors=[[4, 0, 1], [0, 2, 3], [1, 2, 3, 4]] if method == 'correlation' else [[4, 0], [0, 2, 3], [1]]))
        out.append(dict(case='rdms', method=method, n_events=3, n_vox=4, events=['b', 'a', 'c'], centers=[1, 3],
                        neighbors=[[1, 0, 2], [3, 2, 0]]))
    if not quick:
        # more than 1000 centres: chunked branch
        nbs = [[i % 4, (i + 1) % 4, (i + 2) % 4] for i in range(1001)]
        out.append(dict(case='rdms', method='euclidean', n_events=3, n_vox=4, events=[0, 1, 0], centers=list(range(1001)),
                        neighbors=nbs, check_first=3, check_last=True))
    out.append(dict(case='eval_order'))
    return out
