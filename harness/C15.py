"""C15 -- unbalanced (compiled) estimator matches the balanced one, skips missing channels.

cengine/similarity.pyx is transpiled to bounds-checked Python on every run (symx.pyx, validated against the shipped
.so in the self-check) and replaces the compiled calc/calc_one while the real calc_rdm_unbalanced runs symbolically.
Replays run the shipped compiled extension."""
import itertools
import sys
from fractions import Fraction

import numpy as np

from harness.common import total, dot, center, triu_pairs, labels_for, as_desc, rgs
from harness.C01 import sym_prec
from symx.run import sqrt, log, isnan

PROP = 'C15'
PYX = '/repo/src/rsatoolbox/cengine/similarity.pyx'
_ORIG = {}


def _install(T):
    import rsatoolbox.rdm.calc_unbalanced as cu
    if not _ORIG:
        _ORIG['calc'], _ORIG['calc_one'] = cu.calc, cu.calc_one
    if T.symbolic:
        from symx import pyx
        ns = pyx.load(PYX, symbolic=True)
        cu.calc, cu.calc_one = ns['calc_py'], ns['calc_one']
    else:
        cu.calc, cu.calc_one = _ORIG['calc'], _ORIG['calc_one']
    return cu


def _dataset(T, cfg, positive=False):
    from rsatoolbox.data import Dataset
    pat = cfg['pattern']
    P = cfg['n_chan']
    X = T.arr('x', (len(pat), P), positive=positive)
    Xin = X.copy()
    for (r, c) in cfg.get('nan_at', []):
        Xin[r, c] = np.nan
    labels = labels_for(pat, cfg.get('labkind', 'int'), cfg.get('perm'))
    obs = {'cond': as_desc(labels, cfg.get('container', 'array'))}
    if cfg.get('folds') is not None:
        obs['fold'] = np.array(cfg['folds'])
    return Dataset(Xin, obs_descriptors=obs), X, labels


def _valid(cfg, i, j, P):
    nan = {tuple(x) for x in cfg.get('nan_at', [])}
    return [k for k in range(P) if (i, k) not in nan and (j, k) not in nan]


def _sim(method, X, i, j, ks, P, extra):
    """reference similarity between observations i and j over the channels valid in both, and its weight"""
    xi, xj = [X[i, k] for k in ks], [X[j, k] for k in ks]
    if method in ('euclidean',) or (method in ('mahalanobis', 'crossnobis') and extra.get('prec') is None):
        return dot(xi, xj) if ks else 0, len(ks)
    if method in ('mahalanobis', 'crossnobis'):
        N = extra['prec']
        return total(xi[a] * N[ks[a]][ks[b]] * xj[b] for a in range(len(ks)) for b in range(len(ks))), P
    if method in ('poisson', 'poisson_cv'):
        lam, w = extra['lam'], extra['w']
        li = [(v + lam * w) / (1 + w) for v in xi]
        lj = [(v + lam * w) / (1 + w) for v in xj]
        return (total((b - a) * (log(a) - log(b)) for a, b in zip(li, lj)) / 2 if ks else 0), len(ks)
    if method == 'correlation':
        n = len(ks)
        ci, cj = center(xi), center(xj)
        return dot(ci, cj) / (sqrt(dot(ci, ci)) * sqrt(dot(cj, cj))) * n / 2, n
    raise ValueError(method)


def ref_unbalanced(method, X, labels, cfg, extra, weighting='number', folds=None):
    """average over admissible observation pairs, per pair of condition labels in order of first appearance"""
    P = cfg['n_chan']
    n = len(labels)
    ulab = list(dict.fromkeys(labels))
    crossval = folds is not None

    def avg(pairs, half_self):
        num, den = 0, 0
        for (i, j) in pairs:
            if crossval and folds[i] == folds[j]:
                continue
            ks = _valid(cfg, i, j, P)
            s, wgt = _sim(method, X, i, j, ks, P, extra)
            if wgt <= 0:
                continue
            f = Fraction(1, 2) if (i == j and half_self) else 1
            if weighting == 'number':
                num, den = num + s * f, den + wgt * f
            else:
                num, den = num + s / wgt * f, den + f
        return None if den == 0 else num / den
    selfs = {}
    for a in ulab:
        idx = [i for i in range(n) if labels[i] == a]
        pairs = [(i, j) for i in idx for j in idx if i < j] + ([] if crossval else [(i, i) for i in idx])
        selfs[a] = avg(pairs, True)
    out = []
    for a, b in itertools.combinations(ulab, 2):
        pairs = [(min(i, j), max(i, j)) for i in range(n) for j in range(n) if labels[i] == a and labels[j] == b]
        cr = avg(pairs, False)
        if cr is None or selfs[a] is None or selfs[b] is None:
            out.append(np.nan)
        else:
            out.append(selfs[a] + selfs[b] - 2 * cr)
    return ulab, out


def _extra(T, cfg):
    kw, extra = {}, {}
    m = cfg['method']
    if m in ('mahalanobis', 'crossnobis') and cfg.get('noise', True):
        prec = sym_prec(T, cfg['n_chan'])
        kw['noise'] = prec
        extra['prec'] = [list(r) for r in prec]
    if m in ('poisson', 'poisson_cv'):
        lam, w = T.scalar('lam', positive=True), T.scalar('w', positive=True)
        kw.update(prior_lambda=lam, prior_weight=w)
        extra.update(lam=lam, w=w)
    return kw, extra


def case_definition(T, cfg):
    """value per label pair = average over admissible observation pairs (both weightings, NaN channels skipped);
    labels in order of first appearance; no buffer access out of bounds"""
    cu = _install(T)
    m = cfg['method']
    ds, X, labels = _dataset(T, cfg, positive=m.startswith('poisson'))
    kw, extra = _extra(T, cfg)
    folds = cfg.get('folds')
    if folds is not None:
        kw['cv_descriptor'] = 'fold'
    weighting = cfg.get('weighting', 'number')
    rdm = cu.calc_rdm_unbalanced(ds, method=m, descriptor='cond', weighting=weighting, **kw)
    ulab, want = ref_unbalanced(m, X, labels, cfg, extra, weighting, folds)
    key = f"C15:definition:{m}:{weighting}" + (':nan' if cfg.get('nan_at') else '')
    T.concrete('labels in order of first appearance', [str(x) for x in rdm.pattern_descriptors['cond']] == [str(x) for x in ulab],
               str(rdm.pattern_descriptors['cond']), key=key)
    if m == 'correlation':
        for i in range(len(labels)):
            v = center([X[i, k] for k in _valid(cfg, i, i, cfg['n_chan'])])
            T.assume(dot(v, v) > 0)
    T.eq('pair averages', rdm.dissimilarities[0], want, key=key)


def case_balanced(T, cfg):
    """coincides with calc_rdm wherever theory says it must"""
    cu = _install(T)
    from rsatoolbox.rdm import calc_rdm
    m = cfg['method']
    ds, X, labels = _dataset(T, cfg, positive=m.startswith('poisson'))
    kw, extra = _extra(T, cfg)
    if cfg.get('folds') is not None:
        kw['cv_descriptor'] = 'fold'
    if m == 'correlation':
        for i in range(len(labels)):
            v = center(list(X[i]))
            T.assume(dot(v, v) > 0)
    ub = cu.calc_rdm_unbalanced(ds, method=m, descriptor='cond', **kw)
    bal = calc_rdm(ds, method=m, descriptor='cond', **kw)
    key = f'C15:balanced:{m}'
    # calc_rdm sorts labels; bring both to label-pair keyed form
    from harness.C09 import pair_index
    lu = [str(x) for x in ub.pattern_descriptors['cond']]
    lb = [str(x) for x in bal.pattern_descriptors['cond']]
    T.concrete('same label sets', sorted(lu) == sorted(lb), f'{lu} {lb}', key=key)
    n = len(lu)
    want = []
    for i, j in triu_pairs(n):
        a, b = lb.index(lu[i]), lb.index(lu[j])
        want.append(bal.dissimilarities[0][pair_index(n, a, b)])
    T.eq('unbalanced == balanced estimator', ub.dissimilarities[0], want, key=key)


def case_one(T, cfg):
    """the single-pair helper agrees with the full computation"""
    cu = _install(T)
    from rsatoolbox.data import Dataset
    m = cfg['method']
    ds, X, labels = _dataset(T, cfg, positive=m.startswith('poisson'))
    kw, extra = _extra(T, cfg)
    a, b = list(dict.fromkeys(labels))[:2]
    ia = [i for i in range(len(labels)) if labels[i] == a]
    ib = [i for i in range(len(labels)) if labels[i] == b]
    da, db = ds.subset_obs('cond', a), ds.subset_obs('cond', b)
    weighting = cfg.get('weighting', 'number')
    val, wsum = cu.calc_one_similarity(da, db, np.array(ia, dtype=np.int64), np.array(ib, dtype=np.int64), method=m,
                                       weighting=weighting, **kw)
    num, den = 0, 0
    for i in ia:
        for j in ib:
            ks = _valid(cfg, i, j, cfg['n_chan'])
            s, wgt = _sim(m, X, i, j, ks, cfg['n_chan'], extra)
            if wgt > 0:
                if weighting == 'number':
                    num, den = num + s, den + wgt
                else:
                    num, den = num + s / wgt, den + 1
    key = f'C15:calc_one:{m}:{weighting}'
    T.eq('single-pair value', val, num / den, key=key)
    T.eq('single-pair weight', wsum, den, key=key)


CASES = dict(definition=case_definition, balanced=case_balanced, one=case_one)
MAX_PATHS = dict(quick=300, thorough=3000)
ASSUME_SQRT_ARGS_POSITIVE = True
SKIP_UNKNOWN_BRANCHES = True
FEAS_TIMEOUT_MS = 3000


def configs(tier):
    quick = tier == 'quick'
    out = []
    methods = ['euclidean', 'correlation', 'mahalanobis', 'poisson']
    for m in methods:
        P = 3 if m == 'correlation' else 2
        # one observation per condition: every method coincides with calc_rdm
        for perm in [(0, 1, 2), (2, 0, 1)]:
            out.append(dict(case='balanced', method=m, pattern=(0, 1, 2), n_chan=P, perm=perm, labkind='str'))
        # definition, unbalanced repetition counts, both weightings
        pats = [(0, 1, 0), (0, 0, 1, 1), (1, 0, 1, 2)] if quick else \
            [p for n in ((3, 4) if m == 'correlation' else (3, 4, 5)) for p in rgs(n, 2, 3)]     # correlation, 5 obs: z3 unknown
        for pat in pats:
            for wgt in ['number', 'equal']:
                out.append(dict(case='definition', method=m, pattern=pat, n_chan=P, weighting=wgt, labkind='intgap'))
        out.append(dict(case='one', method=m, pattern=(0, 1, 0, 1), n_chan=P, weighting='number'))
        out.append(dict(case='one', method=m, pattern=(0, 1, 0, 1), n_chan=P, weighting='equal'))
    for m in ['euclidean', 'mahalanobis']:
        for pat in [(0, 1, 0), (0, 0, 1, 2), (0, 1, 1, 0, 1)]:
            out.append(dict(case='balanced', method=m, pattern=pat, n_chan=2, labkind='int'))
    # fold-balanced designs: crossnobis / poisson_cv
    for m in ['crossnobis', 'poisson_cv']:
        out.append(dict(case='balanced', method=m, pattern=(0, 1, 0, 1), folds=[0, 0, 1, 1], n_chan=2, noise=(m == 'crossnobis')))
        out.append(dict(case='definition', method=m, pattern=(0, 1, 0, 1), folds=[0, 0, 1, 1], n_chan=2, noise=False))
        if not quick:
            out.append(dict(case='balanced', method=m, pattern=(0, 1, 2, 0, 1, 2), folds=[0, 0, 0, 1, 1, 1], n_chan=2, noise=False))
    # missing channels: whole channel, per observation
    for m in ['euclidean', 'poisson', 'correlation', 'mahalanobis']:
        P = 3
        for nan_at in [[[0, 1]], [[0, 0], [1, 0], [2, 0]], [[0, 2], [2, 1]]]:
            if m == 'correlation' and len(nan_at) != 1:
                continue        # correlation: one per-observation NaN only (whole-channel: z3 unknown; two NaNs: degenerate 1-channel pairs)
            out.append(dict(case='definition', method=m, pattern=(0, 1, 0), n_chan=P, nan_at=nan_at, weighting='number',
                            noise=(m == 'mahalanobis')))
    return out
