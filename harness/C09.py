"""C09 -- bootstrap samples are faithful with-replacement resamples of whole groups."""
import itertools
from collections import Counter

import numpy as np

from harness.common import rgs, as_desc, triu_pairs

PROP = 'C09'

GROUPVALS = {'int': [0, 1, 2, 3, 4, 5, 6, 7], 'intgap': [5, 2, 9, 1, 7, 3, 11, 0], 'str': ['gb', 'ga', 'gd', 'gc', 'ge', 'gg', 'gf', 'gh']}


def pair_index(n, i, j):
    """position of unordered pair (i,j) in the upper-triangular vector of an n x n RDM"""
    if i > j:
        i, j = j, i
    return i * n - i * (i + 1) // 2 + (j - i - 1)


def build(T, cfg, name='d'):
    from rsatoolbox.rdm import RDMs
    n_rdm, n_cond = cfg['n_rdm'], cfg['n_cond']
    D = T.arr(name, (n_rdm, n_cond * (n_cond - 1) // 2), positive=bool(cfg.get('positive')))
    pg = cfg.get('pgroups') or list(range(n_cond))
    rg = cfg.get('rgroups') or list(range(n_rdm))
    pdesc = {'name': as_desc(['p%d' % i for i in range(n_cond)], cfg['container']),
             'grp': as_desc([GROUPVALS[cfg['gkind']][g] for g in pg], cfg['container'])}
    rdesc = {'rname': as_desc(['r%d' % i for i in range(n_rdm)], cfg['container']),
             'subj': as_desc([GROUPVALS[cfg['gkind']][g] for g in rg], cfg['container'])}
    rdms = RDMs(D, dissimilarity_measure='test', descriptors={'study': 's'}, rdm_descriptors=rdesc,
                pattern_descriptors=pdesc)
    return rdms, D, pdesc, rdesc


def check_sample(T, tag, sample, D, cfg, exp_rnames, exp_pnames, key):
    """entries of the sample are THE source variables; NaN exactly on copy pairs"""
    n_cond = cfg['n_cond']
    rn = list(sample.rdm_descriptors['rname'])
    pn = list(sample.pattern_descriptors['name'])
    if exp_rnames is not None:
        T.concrete(f'{tag} rdms', rn == exp_rnames, f'{rn} vs {exp_rnames}', key=key)
    if exp_pnames is not None:
        T.concrete(f'{tag} conds multiset', Counter(pn) == Counter(exp_pnames), f'{pn} vs {exp_pnames}', key=key)
    T.concrete(f'{tag} shape', sample.n_rdm == len(rn) and sample.n_cond == len(pn) and
               sample.dissimilarities.shape == (len(rn), len(pn) * (len(pn) - 1) // 2),
               str(sample.dissimilarities.shape), key=key)
    if sample.dissimilarities.shape != (len(rn), len(pn) * (len(pn) - 1) // 2):
        return
    nan = np.nan
    wants = []
    for r, rname in enumerate(rn):
        ro = int(rname[1:])
        row = []
        for i, j in triu_pairs(len(pn)):
            a, b = int(pn[i][1:]), int(pn[j][1:])
            row.append(nan if a == b else D[ro, pair_index(n_cond, a, b)])
        wants.append(row)
    if wants and wants[0]:
        T.eq(f'{tag} entries', sample.dissimilarities, np.array(wants, dtype=object if T.symbolic else float), key=key)
    # all descriptor values carried
    src_p = cfg['_pdesc']
    src_r = cfg['_rdesc']
    okp = all(list(sample.pattern_descriptors[k])[i] == list(src_p[k])[int(pn[i][1:])]
              for k in src_p for i in range(len(pn)))
    okr = all(list(sample.rdm_descriptors[k])[i] == list(src_r[k])[int(rn[i][1:])]
              for k in src_r for i in range(len(rn)))
    T.concrete(f'{tag} pattern descriptors carried', okp, str(sample.pattern_descriptors), key=key)
    T.concrete(f'{tag} rdm descriptors carried', okr, str(sample.rdm_descriptors), key=key)
    T.concrete(f'{tag} descriptors', sample.descriptors.get('study') == 's' and
               sample.dissimilarity_measure == 'test', key=key)


def _members(vals, groups_sorted, drawn):
    """names of members of the drawn groups (draw order, with multiplicity)"""
    out = []
    for g in drawn:
        out += [i for i, v in enumerate(vals) if v == groups_sorted[g]]
    return out


def case_pattern(T, cfg):
    from rsatoolbox.inference import bootstrap_sample_pattern
    rdms, D, pdesc, rdesc = build(T, cfg)
    model, Dm, _, _ = build(T, dict(cfg, n_rdm=1, rgroups=None), name='m')
    cfg = dict(cfg, _pdesc=pdesc, _rdesc=rdesc)
    by = cfg['by']
    vals = list(range(cfg['n_cond'])) if by == 'index' else list(pdesc['grp'])
    groups = list(np.unique(np.array(vals)))
    sample, pidx = bootstrap_sample_pattern(rdms, by)
    drawn = T.draws()
    key = 'C09:pattern'
    T.concrete('n draws', len(drawn) == len(groups) and len(pidx) == len(groups), f'{drawn} {pidx}', key=key)
    T.concrete('returned idx', list(pidx) == [groups[g] for g in drawn], f'{list(pidx)}', key=key)
    T.concrete('idx is array', isinstance(pidx, np.ndarray), key=key)
    mem = _members(vals, groups, drawn)
    check_sample(T, 'sample', sample, D, cfg, ['r%d' % i for i in range(cfg['n_rdm'])], ['p%d' % i for i in mem], key)
    # a model prediction resampled with the returned indices is aligned with the sample
    ms = model.subsample_pattern(by, pidx)
    T.concrete('model aligned', list(ms.pattern_descriptors['name']) == list(sample.pattern_descriptors['name']),
               f"{ms.pattern_descriptors['name']} vs {sample.pattern_descriptors['name']}", key=key)
    T.shared.setdefault('counts', Counter()).update(drawn)
    T.shared.setdefault('all_choices', []).append(list(drawn))
    T.shared['ngroups'] = len(groups)


def case_rdm(T, cfg):
    from rsatoolbox.inference import bootstrap_sample_rdm
    rdms, D, pdesc, rdesc = build(T, cfg)
    cfg = dict(cfg, _pdesc=pdesc, _rdesc=rdesc)
    by = cfg['by']
    vals = list(range(cfg['n_rdm'])) if by == 'index' else list(rdesc['subj'])
    groups = list(np.unique(np.array(vals)))
    sample, ridx = bootstrap_sample_rdm(rdms, by)
    drawn = T.draws()
    key = 'C09:rdm'
    T.concrete('n draws', len(drawn) == len(groups) and len(ridx) == len(groups), f'{drawn} {ridx}', key=key)
    T.concrete('returned idx', list(ridx) == [groups[g] for g in drawn], f'{list(ridx)}', key=key)
    mem = _members(vals, groups, drawn)
    check_sample(T, 'sample', sample, D, cfg, ['r%d' % i for i in mem], ['p%d' % i for i in range(cfg['n_cond'])], key)
    T.shared.setdefault('counts', Counter()).update(drawn)
    T.shared.setdefault('all_choices', []).append(list(drawn))
    T.shared['ngroups'] = len(groups)


def case_both(T, cfg):
    from rsatoolbox.inference import bootstrap_sample
    rdms, D, pdesc, rdesc = build(T, cfg)
    cfg = dict(cfg, _pdesc=pdesc, _rdesc=rdesc)
    rby, pby = cfg['rby'], cfg['by']
    rvals = list(range(cfg['n_rdm'])) if rby == 'index' else list(rdesc['subj'])
    pvals = list(range(cfg['n_cond'])) if pby == 'index' else list(pdesc['grp'])
    rgroups = list(np.unique(np.array(rvals)))
    pgroups = list(np.unique(np.array(pvals)))
    sample, ridx, pidx = bootstrap_sample(rdms, rby, pby)
    drawn = T.draws()
    key = 'C09:both'
    T.concrete('n draws', len(drawn) == len(rgroups) + len(pgroups), f'{drawn}', key=key)
    dr, dp = drawn[:len(rgroups)], drawn[len(rgroups):]
    T.concrete('returned rdm idx', list(ridx) == [rgroups[g] for g in dr], f'{list(ridx)}', key=key)
    T.concrete('returned pattern idx', list(pidx) == [pgroups[g] for g in dp], f'{list(pidx)}', key=key)
    check_sample(T, 'sample', sample, D, cfg, ['r%d' % i for i in _members(rvals, rgroups, dr)],
                 ['p%d' % i for i in _members(pvals, pgroups, dp)], key)


def _finish(T, cfg):
    c = T.shared.get('counts', Counter())
    g = T.shared.get('ngroups', 0)
    T.concrete('uniform over the outcome space', g > 0 and len(set(c[i] for i in range(g))) == 1,
               f'selection counts per group over all outcomes: {dict(c)}', key=f"C09:{cfg['case']}:uniform")
    T.concrete('outcome space complete', len(T.shared.get('all_choices', [])) == g ** g,
               f"{len(T.shared.get('all_choices', []))} outcomes vs {g}^{g}", key=f"C09:{cfg['case']}:uniform")


case_pattern.finish = _finish
case_rdm.finish = _finish

CASES = dict(pattern=case_pattern, rdm=case_rdm, both=case_both)
MAX_PATHS = dict(quick=400, thorough=4000)


def configs(tier):
    out = []
    quick = tier == 'quick'
    maxg = 3 if quick else 4
    kinds = [('int', 'array'), ('str', 'list'), ('intgap', 'list')] if quick else \
        [('int', 'array'), ('int', 'list'), ('str', 'list'), ('str', 'array'), ('intgap', 'array'), ('intgap', 'list')]
    # pattern bootstrap
    for n_cond in range(3, (4 if quick else 5) + 1):
        for pg in rgs(n_cond, 2, maxg):
            for gkind, container in kinds:
                if quick and n_cond == 4 and gkind != 'str':
                    continue
                if not quick and n_cond == 5 and (gkind, container) != ('str', 'list'):
                    continue
                out.append(dict(case='pattern', n_rdm=2, n_cond=n_cond, pgroups=list(pg), gkind=gkind,
                                container=container, by='grp'))
        if n_cond <= maxg:
            for gkind, container in kinds[:2]:
                out.append(dict(case='pattern', n_rdm=2, n_cond=n_cond, pgroups=None, gkind=gkind,
                                container=container, by='index'))
    # rdm bootstrap
    for n_rdm in range(2, (4 if quick else 5) + 1):
        for rg in rgs(n_rdm, 2 if n_rdm > 2 else 1, maxg):
            for gkind, container in kinds:
                if quick and n_rdm == 4 and gkind != 'str':
                    continue
                if max(rg) == 0:
                    continue
                out.append(dict(case='rdm', n_rdm=n_rdm, n_cond=3, rgroups=list(rg), gkind=gkind,
                                container=container, by='subj'))
        if n_rdm <= maxg:
            for gkind, container in kinds[:2]:
                out.append(dict(case='rdm', n_rdm=n_rdm, n_cond=3, rgroups=None, gkind=gkind, container=container,
                                by='index'))
    # both factors: groups per factor bounded so that the product of outcome spaces stays small
    both = [(2, 3, None, None, 'index', 'index'), (3, 3, [0, 0, 1], [0, 1, 1], 'subj', 'grp'),
            (2, 4, None, [0, 1, 0, 2], 'index', 'grp')]
    if not quick:
        both += [(3, 3, None, None, 'index', 'index'), (4, 4, [0, 1, 1, 2], [0, 0, 1, 2], 'subj', 'grp'),
                 (3, 4, [0, 1, 2], [0, 1, 2, 2], 'subj', 'grp')]
    for n_rdm, n_cond, rg, pg, rby, pby in both:
        for gkind, container in kinds[:2]:
            out.append(dict(case='both', n_rdm=n_rdm, n_cond=n_cond, rgroups=rg, pgroups=pg, gkind=gkind,
                            container=container, rby=rby, by=pby))
    return out
