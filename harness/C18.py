"""C18 -- simulated data reproduce the generating model's RDM (exact signal, zero noise); design vectors,
descriptors, same-signal option, additive noise scaled by sqrt(noise)."""
import itertools
from fractions import Fraction

import numpy as np

from harness.common import total, dot
from symx.run import sqrt

PROP = 'C18'


def _model_rdm(T, n_cond, dim, canon=False):
    """a Euclidean-embeddable model RDM: squared distances between n_cond symbolic points in `dim` dimensions"""
    P = T.arr('p', (n_cond, dim))
    if canon:
        # canonical position: point i has non-zero coordinates only in the first i axes (every configuration of
        # n_cond points is congruent to one of these, so every embeddable RDM is still covered)
        P = [[P[i, k] if k < i else 0 for k in range(dim)] for i in range(n_cond)]
        P = np.array(P, dtype=object if T.symbolic else float)
    rdm = []
    for i in range(n_cond):
        for j in range(i + 1, n_cond):
            rdm.append(total((P[i, k] - P[j, k]) * (P[i, k] - P[j, k]) for k in range(dim)))
    return P, rdm


def _pivots(G):
    """pivots of the unpivoted LDL^T factorisation of the (list-of-lists) symmetric matrix G"""
    n = len(G)
    L = [[0] * n for _ in range(n)]
    d = []
    for j in range(n):
        dj = G[j][j] - total(L[j][k] * L[j][k] * d[k] for k in range(j)) if j else G[j][j]
        d.append(dj)
        for i in range(j + 1, n):
            r = G[i][j] - (total(L[i][k] * L[j][k] * d[k] for k in range(j)) if j else 0)
            L[i][j] = r / dj
    return d


class _Tap:
    """records the arrays returned by np.random.uniform inside rsatoolbox.simulation.sim"""

    def __init__(self, T, fixed_z=None):
        import sys
        self.mod = sys.modules['rsatoolbox.simulation.sim']
        self.fixed_z = fixed_z
        self.real_ss = self.mod.ss
        self.rnd = self.mod.np.random
        self.calls = []
        self.real = self.rnd.uniform
        tap = self

        fixed = not (T.symbolic and not getattr(T, 'consts', False))

        def uniform(low=0.0, high=1.0, size=None):
            if fixed:
                # float replay / engine self-check: reproducible generic draws (the obligations are identities in the draws)
                out = np.random.RandomState(1234 + len(tap.calls)).uniform(0.05, 0.95, size=size)
            else:
                out = tap.real(low, high, size=size)
            tap.calls.append((tuple(size) if size is not None else (), out))
            return out
        self._uniform = uniform

    def __enter__(self):
        if self.fixed_z is not None:
            # stated bound of the 'fixed draw' configurations: the normal quantiles of the SIGNAL draw are this constant
            # matrix (centred, orthogonal rows of squared norm 4, so that the whitening is exact in rationals)
            tap, real_ss = self, self.real_ss
            z = np.array(self.fixed_z, dtype=float)

            class _Norm:
                @staticmethod
                def ppf(q, *a, **k):
                    if np.shape(q) == z.shape:
                        return z.copy()
                    return real_ss.norm.ppf(q, *a, **k)

            class _SS:
                norm = _Norm()

                def __getattr__(self, name):
                    return getattr(real_ss, name)
            self.mod.ss = _SS()
        try:
            self.rnd.uniform = self._uniform
            self.patched = 'attr'
        except AttributeError:
            self.patched = None
            raise
        return self

    def __exit__(self, *a):
        self.mod.ss = self.real_ss
        if self.patched == 'attr':
            try:
                del self.rnd.uniform          # instance attribute shadowing the class method (symbolic proxy)
            except AttributeError:
                self.rnd.uniform = self.real  # real numpy module attribute
        return False


def _setup(T, cfg):
    from rsatoolbox.model import ModelFixed
    n = cfg['n_cond']
    P, rdm = _model_rdm(T, n, cfg.get('dim', n - 1), cfg.get('canon', False))
    rdm_arr = np.array(rdm, dtype=object if T.symbolic else float)
    model = ModelFixed('gen', rdm_arr)
    # the model RDM is non-degenerate: the pivots of its second-moment matrix are above the 1e-15 clipping
    # threshold of make_signal (the last one is identically zero after centring)
    D = [[0 if i == j else rdm[_pair(i, j, n)] for j in range(n)] for i in range(n)]
    H = [[(1 if i == j else 0) - Fraction(1, n) for j in range(n)] for i in range(n)]
    HD = [[total(H[i][k] * D[k][j] for k in range(n)) for j in range(n)] for i in range(n)]
    G = [[-total(HD[i][k] * H[k][j] for k in range(n)) / 2 for j in range(n)] for i in range(n)]
    for d in _pivots(G)[:n - 1]:
        T.assume(d >= (Fraction(2, 10 ** 6) if T.symbolic else Fraction(1, 10 ** 6)))    # margin: float replay at the boundary
    return model, rdm, rdm_arr


def _pair(i, j, n):
    if i > j:
        i, j = j, i
    return sum(n - 1 - a for a in range(i)) + (j - i - 1)


def _assume_generic_draws(T, tap, n, n_ch):
    """the random signal draws are generic: the non-vanishing pivots of E = U U^T (U = centred normal quantiles of the
    draws) lie above make_signal's 1e-15 clipping threshold (E has rank min(n_cond, n_channel - 1))"""
    import sys
    ppf = sys.modules['rsatoolbox.simulation.sim'].ss.norm.ppf
    for shape, u in tap.calls:
        if shape != (n, n_ch):
            continue
        for v in np.asarray(u, dtype=object).flat:
            T.assume(v >= Fraction(1, 1000))
            T.assume(v <= Fraction(999, 1000))
        z = np.asarray(ppf(u), dtype=object)
        U = [[z[i, c] - total(z[i, k] for k in range(n_ch)) / n_ch for c in range(n_ch)] for i in range(n)]
        E = [[dot(U[i], U[j]) for j in range(n)] for i in range(n)]
        for d in _pivots(E)[:min(n, n_ch - 1)]:
            T.assume(d >= (Fraction(2, 10 ** 6) if T.symbolic else Fraction(1, 10 ** 6)))


def case_design(T, cfg):
    """make_design: every condition exactly once per partition, partitions 0..n_part-1"""
    from rsatoolbox.simulation import make_design
    n_cond, n_part = cfg['n_cond'], cfg['n_part']
    cv, pv = make_design(n_cond, n_part)
    key = 'C18:design'
    T.concrete('lengths', len(cv) == n_cond * n_part == len(pv), f'{len(cv)} {len(pv)}', key=key)
    for p in range(n_part):
        conds = sorted(float(c) for c, q in zip(cv, pv) if float(q) == p)
        T.concrete(f'partition {p}: every condition exactly once', conds == [float(c) for c in range(n_cond)],
                   str(conds), key=key)
    T.concrete('no other partitions', sorted(set(float(q) for q in pv)) == [float(p) for p in range(n_part)],
               str(pv), key=key)


def case_exact(T, cfg):
    """exact signal, zero noise: calc_rdm(euclidean) by condition == signal * model RDM; descriptors"""
    from rsatoolbox.simulation import make_dataset, make_design
    from rsatoolbox.rdm import calc_rdm
    n, n_ch, n_part, n_sim = cfg['n_cond'], cfg['n_channel'], cfg['n_part'], cfg.get('n_sim', 1)
    model, rdm, rdm_arr = _setup(T, cfg)
    signal = T.scalar('signal', positive=True) if cfg.get('signal', 'sym') == 'sym' else cfg['signal']
    cv, pv = make_design(n, n_part)
    cv = np.asarray(cv, dtype=float)
    if cfg.get('design') == 'matrix':
        arg = np.zeros((len(cv), n))
        for r, c in enumerate(cv):
            arg[r, int(c)] = 1
    else:
        arg = cv
    key = f"C18:exact:{cfg.get('design', 'vector')}"
    with _Tap(T, cfg.get('fixed_z')) as tap:
        ds = make_dataset(model, None, arg, n_channel=n_ch, n_sim=n_sim, signal=signal, noise=0,
                          use_exact_signal=True, use_same_signal=cfg.get('same', False))
    if not cfg.get('fixed_z'):
        _assume_generic_draws(T, tap, n, n_ch)
    T.concrete('number of datasets', len(ds) == n_sim, str(len(ds)), key=key)
    for k, d in enumerate(ds):
        T.concrete(f'sim {k}: shape', tuple(d.measurements.shape) == (len(cv), n_ch), str(d.measurements.shape), key=key)
        T.concrete(f'sim {k}: condition vector / design carried', np.array_equal(np.asarray(d.obs_descriptors['cond_vec'], dtype=float),
                                                                    np.asarray(arg, dtype=float)), key=key + ':desc')
        des = d.descriptors
        T.concrete(f'sim {k}: simulation parameters carried', des.get('model') == 'gen' and des.get('theta') is None
                   and 'signal' in des and 'noise' in des, str(des), key=key + ':desc')
        T.eq(f'sim {k}: signal descriptor', des['signal'], signal, key=key + ':desc')
        T.eq(f'sim {k}: noise descriptor', des['noise'], 0, key=key + ':desc')
        if cfg.get('design') == 'matrix':
            from rsatoolbox.data import Dataset
            r = calc_rdm(Dataset(d.measurements, obs_descriptors={'cond': cv}), method='euclidean', descriptor='cond')
        else:
            r = calc_rdm(d, method='euclidean', descriptor='cond_vec')
        got = r.dissimilarities[0]
        T.eq(f'sim {k}: euclidean RDM == signal * model RDM', got, [signal * x for x in rdm], key=key + ':rdm', tol=1e-10)
    want = [(n, n_ch), (len(cv), n_ch)] * n_sim if not cfg.get('same') else [(n, n_ch)] + [(len(cv), n_ch)] * n_sim
    T.concrete('signal draws: fresh per simulation unless same-signal', [s for s, _ in tap.calls] == want,
               f'{[s for s, _ in tap.calls]} vs {want}', key=key + ':draws')
    if cfg.get('same') and n_sim > 1:
        T.eq('same signal: identical noiseless data', ds[0].measurements, ds[1].measurements, key=key + ':same')


def case_noise(T, cfg):
    """same signal, two simulations: data_0 - data_1 == (ppf(e_0) - ppf(e_1)) * sqrt(noise) [@ chol(noise cov)]"""
    import sys
    from rsatoolbox.simulation import make_dataset, make_design
    n, n_ch, n_part = cfg['n_cond'], cfg['n_channel'], cfg['n_part']
    model, rdm, rdm_arr = _setup(T, cfg)
    signal = T.scalar('signal', positive=True)
    noise = T.scalar('noise', positive=True)
    cv, pv = make_design(n, n_part)
    cv = np.asarray(cv, dtype=float)
    kw = {}
    chol = None
    if cfg.get('noise_cov'):
        cov = np.array([[2.0, 0.5, 0.0, 0.0], [0.5, 1.0, 0.25, 0.0], [0.0, 0.25, 1.5, 0.5], [0.0, 0.0, 0.5, 1.0]])[:n_ch, :n_ch]
        kw['noise_cov_channel'] = cov
        chol = np.linalg.cholesky(cov)
    key = f"C18:noise:{'cov' if chol is not None else 'iid'}"
    with _Tap(T) as tap:
        ds = make_dataset(model, None, cv, n_channel=n_ch, n_sim=2, signal=signal, noise=noise,
                          use_exact_signal=cfg.get('exact', False), use_same_signal=True, **kw)
    if cfg.get('exact'):
        _assume_generic_draws(T, tap, n, n_ch)
    shapes = [s for s, _ in tap.calls]
    T.concrete('one signal draw, one noise draw per simulation', shapes == [(n, n_ch), (len(cv), n_ch), (len(cv), n_ch)],
               str(shapes), key=key)
    ppf = sys.modules['rsatoolbox.simulation.sim'].ss.norm.ppf
    e0, e1 = ppf(tap.calls[1][1]), ppf(tap.calls[2][1])
    s = sqrt(noise)
    diff = np.asarray(ds[0].measurements - ds[1].measurements)
    for r in range(len(cv)):
        for c in range(n_ch):
            if chol is None:
                want = (e0[r, c] - e1[r, c]) * s
            else:
                want = total((e0[r, k] - e1[r, k]) * s * _snap(chol[k, c], T) for k in range(n_ch))
            T.eq(f'noise difference [{r},{c}]', diff[r, c], want, key=key)
    for k, d in enumerate(ds):
        T.eq(f'sim {k}: noise descriptor', d.descriptors['noise'], noise, key=key + ':desc')
        T.eq(f'sim {k}: signal descriptor', d.descriptors['signal'], signal, key=key + ':desc')


def _snap(x, T):
    return float(x)


CASES = dict(design=case_design, exact=case_exact, noise=case_noise)
MAX_PATHS = dict(quick=400, thorough=4000)
CFG_BUDGET_S = dict(quick=200, thorough=1500)
SKIP_UNKNOWN_BRANCHES = True
FEAS_TIMEOUT_MS = 3000


Z34 = [[1, -1, 1, -1], [1, 1, -1, -1], [1, -1, -1, 1]]      # centred, orthogonal rows of squared norm 4


def configs(tier):
    out = []
    for n_cond, n_part in ((2, 1), (3, 2), (4, 3), (5, 1)) + (((6, 2), (3, 5), (1, 3)) if tier == 'thorough' else ()):
        out.append(dict(case='design', n_cond=n_cond, n_part=n_part))
    out.append(dict(case='exact', n_cond=2, n_channel=2, n_part=2))
    out.append(dict(case='exact', n_cond=2, n_channel=3, n_part=1))
    out.append(dict(case='exact', n_cond=2, n_channel=2, n_part=1, n_sim=2, same=True))
    out.append(dict(case='exact', n_cond=2, n_channel=2, n_part=1, n_sim=2))
    out.append(dict(case='exact', n_cond=2, n_channel=2, n_part=2, design='matrix'))
    out.append(dict(case='exact', n_cond=2, n_channel=2, n_part=1, dim=2))
    out.append(dict(case='exact', n_cond=3, n_channel=4, n_part=1, canon=True, fixed_z=Z34))
    out.append(dict(case='noise', n_cond=2, n_channel=2, n_part=2))
    out.append(dict(case='noise', n_cond=2, n_channel=2, n_part=1, noise_cov=True))
    if tier == 'thorough':
        out.append(dict(case='exact', n_cond=3, n_channel=4, n_part=2, n_sim=2, canon=True, design='matrix', fixed_z=Z34))
        out.append(dict(case='exact', n_cond=3, n_channel=4, n_part=2, n_sim=2, same=True, canon=True, fixed_z=Z34))
        out.append(dict(case='exact', n_cond=2, n_channel=4, n_part=1))
        out.append(dict(case='exact', n_cond=2, n_channel=5, n_part=3))
        out.append(dict(case='exact', n_cond=2, n_channel=3, n_part=2, n_sim=3, same=True))
        out.append(dict(case='exact', n_cond=2, n_channel=3, n_part=2, n_sim=2, design='matrix'))
        out.append(dict(case='exact', n_cond=2, n_channel=3, n_part=1, signal=2))
        out.append(dict(case='noise', n_cond=2, n_channel=3, n_part=2, exact=True, noise_cov=True))
    return out
