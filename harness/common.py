"""shared helpers for harnesses: structure enumeration and type-generic oracles"""
import itertools
from fractions import Fraction

import numpy as np

from symx.core import R, ZERO
from symx.run import sqrt, log, isnan


def rgs(n, kmin=1, kmax=None):
    """restricted growth strings of length n: all set partitions of n items, as block
    index per item in order of first appearance"""
    kmax = kmax or n
    out = []

    def rec(prefix, m):
        if len(prefix) == n:
            if kmin <= m <= kmax:
                out.append(tuple(prefix))
            return
        for b in range(min(m + 1, kmax)):
            rec(prefix + [b], max(m, b + 1))
    rec([], 0)
    return out


LABELSETS = {
    'int': [0, 1, 2, 3, 4, 5],
    'intgap': [10, 3, 7, 1, 12, 5],       # appearance order != sorted order
    'str': ['b', 'a', 'd', 'c', 'f', 'e'],
    'strnum': ['10', '9', '100', '1', '11', '2'],   # alphabetical != numeric
}


def labels_for(pattern, kind, perm=None):
    vals = LABELSETS[kind]
    k = max(pattern) + 1
    perm = list(perm) if perm is not None else list(range(k))
    return [vals[perm[b]] for b in pattern]


def as_desc(labels, container):
    if container == 'list':
        return list(labels)
    return np.array(labels)


def total(xs):
    t = 0
    for x in xs:
        t = t + x
    return t


def mean_rows(rows):
    """element-wise mean of a list of equally long vectors (lists)"""
    n = len(rows)
    return [total(col) * Fraction(1, n) if isinstance(col[0], R) else total(col) / n for col in zip(*rows)]


def dot(a, b):
    return total(x * y for x, y in zip(a, b))


def vmean(v):
    n = len(v)
    return total(v) * Fraction(1, n) if isinstance(v[0], R) else total(v) / n


def center(v):
    m = vmean(v)
    return [x - m for x in v]


def frac(a, b, like):
    """a/b as a constant of the same numeric kind as `like`"""
    return Fraction(a, b) if isinstance(like, R) else a / b


def triu_pairs(n):
    return [(i, j) for i in range(n) for j in range(i + 1, n)]


def rows(a):
    """2-d array -> list of lists"""
    return [list(r) for r in a]
