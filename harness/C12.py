"""C12 -- value-returning operations neither modify nor alias their inputs.

Curated table of public callables (DESIGN.md 4/C12).  For every entry: arguments are built from symbolic arrays,
snapshotted, the callable is run on every path, and then
 (1) every element of every argument array must still equal its original variable (solver query: value-dependent
     writes such as d[d<0]=0 show up as satisfiable), every user-supplied descriptor equals its deep copy;
 (2) results are independent: writing a fresh variable into a result array, or applying a documented in-place
     operation to the result, leaves the arguments' labelled content unchanged, and vice versa."""
import copy
import itertools
import sys

import numpy as np

from harness.common import as_desc

PROP = 'C12'


# ---------------------------------------------------------------- snapshots

def _canon(d):
    out = {}
    for k, v in d.items():
        if k == 'index':
            continue            # library-managed
        if isinstance(v, np.ndarray) and v.dtype == object:
            continue
        try:
            out[k] = [str(x) for x in v] if not isinstance(v, str) else v
        except TypeError:
            out[k] = str(v)
    return out


class Snap:
    """what an argument looked like before the call"""

    def __init__(self, name, obj, orig):
        self.name, self.obj, self.orig = name, obj, orig
        self.descs = {}
        for attr in ('descriptors', 'rdm_descriptors', 'pattern_descriptors', 'obs_descriptors',
                     'channel_descriptors', 'time_descriptors'):
            if hasattr(obj, attr):
                self.descs[attr] = _canon(copy.deepcopy({k: v for k, v in getattr(obj, attr).items()
                                                          if not (isinstance(v, np.ndarray) and v.dtype == object)}))

    def data(self):
        o = self.obj
        if isinstance(o, np.ndarray):
            return o
        for attr in ('dissimilarities', 'measurements'):
            if hasattr(o, attr):
                return getattr(o, attr)
        return None

    def check(self, T, tag, key):
        cur = self.data()
        if cur is not None and self.orig is not None:
            if tuple(np.shape(cur)) != tuple(np.shape(self.orig)):
                T.concrete(f'{tag}: {self.name} array shape unchanged', False, f'{np.shape(cur)} vs {np.shape(self.orig)}', key=key)
            elif np.size(cur):
                T.eq(f'{tag}: {self.name} array unchanged', cur, self.orig, key=key)
        for attr, want in self.descs.items():
            got = _canon(getattr(self.obj, attr))
            T.concrete(f'{tag}: {self.name}.{attr} unchanged', got == want, f'{got} vs {want}', key=key)


# ---------------------------------------------------------------- argument builders

def mk_rdms(T, name, n_rdm=2, n_cond=3, cont='list', measure='m', positive=False):
    from rsatoolbox.rdm import RDMs
    D = T.arr(name, (n_rdm, n_cond * (n_cond - 1) // 2), positive=positive)
    for row in D:       # zero / constant RDMs are outside the domain of the similarity measures (DESIGN 3.3)
        v = list(row)
        m = sum(v[1:], v[0]) / len(v)
        T.assume(sum((x * x for x in v[1:]), v[0] * v[0]) > 0)
        T.assume(sum(((x - m) * (x - m) for x in v[1:]), (v[0] - m) * (v[0] - m)) > 0)
    obj = RDMs(D.copy(), dissimilarity_measure=measure, descriptors={'study': 's'},
               rdm_descriptors={'subj': as_desc(['s%d' % (i % 2) for i in range(n_rdm)], cont),
                                'rname': as_desc(['%s%d' % (name, i) for i in range(n_rdm)], cont)},
               pattern_descriptors={'cond': as_desc(['c%d' % i for i in range(n_cond)], cont),
                                    'grp': as_desc([i % 2 for i in range(n_cond)], cont)})
    return obj, Snap(name, obj, D)


def mk_ds(T, name, labels=(0, 1, 0, 1), n_chan=2, cont='array', positive=False, folds=None):
    from rsatoolbox.data import Dataset
    X = T.arr(name, (len(labels), n_chan), positive=positive)
    obs = {'cond': as_desc(list(labels), cont), 'oname': as_desc(['o%d' % i for i in range(len(labels))], cont)}
    if folds is not None:
        obs['fold'] = as_desc(list(folds), cont)
    ds = Dataset(X.copy(), descriptors={'subj': 's'}, obs_descriptors=obs,
                 channel_descriptors={'ch': as_desc(['a', 'b', 'c'][:n_chan], cont)})
    return ds, Snap(name, ds, X)


def mk_tds(T, name):
    from rsatoolbox.data import TemporalDataset
    X = T.arr(name, (2, 2, 3))
    ds = TemporalDataset(X.copy(), descriptors={'subj': 's'}, obs_descriptors={'cond': np.array([1, 0])},
                         channel_descriptors={'ch': np.array(['a', 'b'])},
                         time_descriptors={'time': np.array([0.0, 0.5, 1.0])})
    return ds, Snap(name, ds, X)


def mk_arr(T, name, shape, positive=False):
    X = T.arr(name, shape, positive=positive)
    A = X.copy()
    return A, Snap(name, A, X)


def _mod(name):
    import rsatoolbox.rdm
    import rsatoolbox.inference
    import rsatoolbox.model
    return sys.modules[name]


# ---------------------------------------------------------------- the table: name -> builder(T) -> (callable, [snaps])

def _tr(fn_name, n_rdm=2, **kw):
    def b(T):
        obj, s = mk_rdms(T, 'a', n_rdm=n_rdm)
        f = getattr(_mod('rsatoolbox.rdm.transform'), fn_name)
        return (lambda: f(obj, **kw)), [s]
    return b


def _rdm_method(meth, *args):
    def b(T):
        obj, s = mk_rdms(T, 'a', n_rdm=3)
        return (lambda: getattr(obj, meth)(*args)), [s]
    return b


def _compare(method, **kw):
    def b(T):
        from rsatoolbox.rdm import compare
        a, sa = mk_rdms(T, 'a', n_rdm=1 if method in ('rho-a', 'tau-a', 'spearman') else 2)
        c, sc = mk_rdms(T, 'b', n_rdm=1)
        extra = []
        k2 = dict(kw)
        if kw.get('sigma_k') == 'vec':
            sk, ss = mk_arr(T, 'sk', (3,), positive=True)
            k2['sigma_k'] = sk
            extra = [ss]
        return (lambda: compare(a, c, method, **k2)), [sa, sc] + extra
    return b


def _calc(method, **kw):
    def b(T):
        from rsatoolbox.rdm import calc_rdm
        ds, s = mk_ds(T, 'x', positive=(method.startswith('poisson')), folds=[0, 0, 1, 1])
        k2 = dict(kw)
        extra = []
        if kw.get('noise') == 'mat':
            N, sn = mk_arr(T, 'prec', (2, 2))
            k2['noise'] = N
            extra = [sn]
        if method in ('crossnobis', 'poisson_cv'):
            k2['cv_descriptor'] = 'fold'
        return (lambda: calc_rdm(ds, method=method, descriptor='cond', **k2)), [s] + extra
    return b


def _noise(fn, kind, method='full'):
    def b(T):
        import rsatoolbox.data.noise as N
        f = getattr(N, fn)
        if kind == 'res':
            A, s = mk_arr(T, 'r', (3, 2))
            return (lambda: f(A, method=method)), [s]
        ds, s = mk_ds(T, 'x')
        return (lambda: f(ds, 'cond', method=method)), [s]
    return b


def _ds_method(meth, *args):
    def b(T):
        ds, s = mk_ds(T, 'x')
        return (lambda: getattr(ds, meth)(*args)), [s]
    return b


def _tds_method(meth, *args):
    def b(T):
        ds, s = mk_tds(T, 'x')
        return (lambda: getattr(ds, meth)(*args)), [s]
    return b


def _merge(T):
    from rsatoolbox.data.ops import merge_datasets
    a, sa = mk_ds(T, 'x')
    c, sc = mk_ds(T, 'y')
    return (lambda: merge_datasets([a, c])), [sa, sc]


def _avg(T):
    from rsatoolbox.data import average_dataset_by
    ds, s = mk_ds(T, 'x')
    return (lambda: average_dataset_by(ds, 'cond')), [s]


def _concat(T):
    from rsatoolbox.rdm import concat
    a, sa = mk_rdms(T, 'a')
    c, sc = mk_rdms(T, 'b', n_rdm=1)
    c.reorder([2, 0, 1])
    sc = Snap('b', c, c.dissimilarities.copy())
    return (lambda: concat(a, c)), [sa, sc]


def _partials(T):
    from rsatoolbox.rdm.combine import from_partials
    a, sa = mk_rdms(T, 'a')
    c, sc = mk_rdms(T, 'b', n_rdm=1)
    return (lambda: from_partials([a, c], descriptor='cond')), [sa, sc]


def _mean(weights, nan=False):
    def b(T):
        a, sa = mk_rdms(T, 'a')
        if nan:
            a.dissimilarities[0, 1] = np.nan
            sa = Snap('a', a, a.dissimilarities.copy())
        if weights == 'array':
            W, sw = mk_arr(T, 'w', (2, 3), positive=True)
            return (lambda: a.mean(weights=W)), [sa, sw]
        return (lambda: a.mean()), [sa]
    return b


def _pool(which, method):
    def b(T):
        a, sa = mk_rdms(T, 'a')
        if which == 'inference_util':
            from rsatoolbox.util.inference_util import pool_rdm
        else:
            from rsatoolbox.util.pooling import pool_rdm
        return (lambda: pool_rdm(a, method)), [sa]
    return b


def _model(cls, mode, from_obj):
    def b(T):
        M = _mod('rsatoolbox.model')
        n_rdm = 1 if cls == 'ModelFixed' else 2
        if from_obj:
            a, sa = mk_rdms(T, 'a', n_rdm=n_rdm)
            src = a
        else:
            A, sa = mk_arr(T, 'a', (3,) if cls == 'ModelFixed' else (2, 3))
            src = A
        th, st = mk_arr(T, 'th', (2,), positive=True)

        def call():
            m = getattr(M, cls)('m', src)
            if mode == 'construct':
                return m
            theta = None if cls == 'ModelFixed' else (0 if cls == 'ModelSelect' else th)
            return m.predict(theta) if mode == 'predict' else m.predict_rdm(theta)
        return call, [sa, st]
    return b


def _fit(fitter, method='cosine'):
    def b(T):
        M = _mod('rsatoolbox.model')
        F = _mod('rsatoolbox.model.fitter')
        basis, sb = mk_rdms(T, 'm', n_rdm=2)
        data, sd = mk_rdms(T, 'd', n_rdm=2)
        model = M.ModelWeighted('w', basis) if fitter != 'fit_select' else M.ModelSelect('w', basis)
        return (lambda: getattr(F, fitter)(model, data, method=method)), [sb, sd]
    return b


def _inference(fn, **kw):
    def b(T):
        I = _mod('rsatoolbox.inference')
        M = _mod('rsatoolbox.model')
        data, sd = mk_rdms(T, 'd', n_rdm=2 if fn == 'bootstrap_sample' else 3)
        mr, sm = mk_rdms(T, 'm', n_rdm=1)
        if fn == 'eval_fixed':
            model = M.ModelFixed('f', mr)
            return (lambda: I.eval_fixed([model], data, method='cosine')), [sd, sm]
        if fn in ('bootstrap_sample', 'bootstrap_sample_rdm', 'bootstrap_sample_pattern'):
            return (lambda: getattr(I, fn)(data)), [sd]
        if fn == 'boot_noise_ceiling':
            return (lambda: I.boot_noise_ceiling(data, method='cosine')), [sd]
        if fn.startswith('sets_'):
            return (lambda: getattr(_mod('rsatoolbox.inference.crossvalsets'), fn)(data, **kw)), [sd]
        raise ValueError(fn)
    return b


def _util(fn):
    def b(T):
        import rsatoolbox.util.rdm_utils as U
        if fn == 'batch_to_matrices':
            A, s = mk_arr(T, 'v', (2, 3))
            return (lambda: U.batch_to_matrices(A)), [s]
        A, s = mk_arr(T, 'v', (2, 3, 3))
        return (lambda: U.batch_to_vectors(A)), [s]
    return b


TABLE = {
    'rank_transform': _tr('rank_transform'), 'sqrt_transform': _tr('sqrt_transform'),
    'positive_transform': _tr('positive_transform'), 'minmax_transform': _tr('minmax_transform'),
    'geotopological_transform': _tr('geotopological_transform', n_rdm=1, low=0.25, up=0.75),
    'transform': _tr('transform', fun=lambda v: v * 2),
    'RDMs.subset': _rdm_method('subset', 'subj', 's0'), 'RDMs.subsample': _rdm_method('subsample', 'subj', ['s0', 's0']),
    'RDMs.subset_pattern': _rdm_method('subset_pattern', 'grp', 0),
    'RDMs.subsample_pattern': _rdm_method('subsample_pattern', 'cond', ['c0', 'c0', 'c2']),
    'RDMs.__getitem__': _rdm_method('__getitem__', 1), 'RDMs.copy': _rdm_method('copy'),
    'RDMs.get_matrices': _rdm_method('get_matrices'),
    'RDMs.mean': _mean(None), 'RDMs.mean(weights)': _mean('array'), 'RDMs.mean(weights,nan)': _mean('array', True),
    'RDMs.mean(nan)': _mean(None, True),
    'concat': _concat, 'from_partials': _partials,
    'compare:cosine': _compare('cosine'), 'compare:corr': _compare('corr'), 'compare:cosine_cov': _compare('cosine_cov'),
    'compare:corr_cov(sigma)': _compare('corr_cov', sigma_k='vec'), 'compare:rho-a': _compare('rho-a'),
    'compare:tau-a': _compare('tau-a'), 'compare:spearman': _compare('spearman'),
    'calc_rdm:euclidean': _calc('euclidean'), 'calc_rdm:euclidean(remove_mean)': _calc('euclidean', remove_mean=True),
    'calc_rdm:correlation': _calc('correlation'), 'calc_rdm:mahalanobis': _calc('mahalanobis', noise='mat'),
    'calc_rdm:poisson': _calc('poisson'), 'calc_rdm:crossnobis': _calc('crossnobis'),
    'calc_rdm:crossnobis(noise,remove_mean)': _calc('crossnobis', noise='mat', remove_mean=True),
    'calc_rdm:poisson_cv': _calc('poisson_cv'),
    'cov_from_residuals': _noise('cov_from_residuals', 'res'), 'cov_from_residuals(diag)': _noise('cov_from_residuals', 'res', 'diag'),
    'prec_from_residuals': _noise('prec_from_residuals', 'res'),
    'cov_from_measurements': _noise('cov_from_measurements', 'ds'), 'cov_from_unbalanced': _noise('cov_from_unbalanced', 'ds'),
    'prec_from_measurements': _noise('prec_from_measurements', 'ds'), 'prec_from_unbalanced': _noise('prec_from_unbalanced', 'ds'),
    'Dataset.subset_obs': _ds_method('subset_obs', 'cond', 0), 'Dataset.subset_channel': _ds_method('subset_channel', 'ch', 'a'),
    'Dataset.split_obs': _ds_method('split_obs', 'cond'), 'Dataset.split_channel': _ds_method('split_channel', 'ch'),
    'Dataset.copy': _ds_method('copy'), 'Dataset.odd_even_split': _ds_method('odd_even_split', 'cond'),
    'Dataset.get_measurements': _ds_method('get_measurements'),
    'Dataset.get_measurements_tensor': _ds_method('get_measurements_tensor', 'cond'),
    'merge_datasets': _merge, 'average_dataset_by': _avg,
    'TemporalDataset.split_time': _tds_method('split_time', 'time'),
    'TemporalDataset.subset_time': _tds_method('subset_time', 'time', 0.0, 0.5),
    'TemporalDataset.bin_time': _tds_method('bin_time', 'time', [np.array([0.0, 0.5]), np.array([1.0])]),
    'TemporalDataset.time_as_observations': _tds_method('time_as_observations', 'time'),
    'TemporalDataset.time_as_channels': _tds_method('time_as_channels'),
    'TemporalDataset.split_obs': _tds_method('split_obs', 'cond'), 'TemporalDataset.copy': _tds_method('copy'),
    'pool_rdm(inference_util):cosine': _pool('inference_util', 'cosine'), 'pool_rdm(inference_util):corr': _pool('inference_util', 'corr'),
    'pool_rdm(pooling):cosine': _pool('pooling', 'cosine'), 'pool_rdm(pooling):corr': _pool('pooling', 'corr'),
    'ModelFixed(RDMs)': _model('ModelFixed', 'construct', True), 'ModelWeighted(RDMs)': _model('ModelWeighted', 'construct', True),
    'ModelSelect(RDMs)': _model('ModelSelect', 'construct', True), 'ModelInterpolate(RDMs)': _model('ModelInterpolate', 'construct', True),
    'ModelWeighted(array)': _model('ModelWeighted', 'construct', False), 'ModelFixed(array).predict_rdm': _model('ModelFixed', 'predict_rdm', False),
    'ModelFixed(RDMs).predict': _model('ModelFixed', 'predict', True),
    'ModelWeighted(RDMs).predict': _model('ModelWeighted', 'predict', True),
    'ModelWeighted(RDMs).predict_rdm': _model('ModelWeighted', 'predict_rdm', True),
    'ModelWeighted(array).predict_rdm': _model('ModelWeighted', 'predict_rdm', False),
    'ModelSelect(RDMs).predict_rdm': _model('ModelSelect', 'predict_rdm', True),
    'ModelInterpolate(RDMs).predict_rdm': _model('ModelInterpolate', 'predict_rdm', True),
    'fit_regress': _fit('fit_regress'), 'fit_regress(corr)': _fit('fit_regress', 'corr'),
    'fit_select': _fit('fit_select'),
    'eval_fixed': _inference('eval_fixed'), 'bootstrap_sample': _inference('bootstrap_sample'),
    'bootstrap_sample_rdm': _inference('bootstrap_sample_rdm'), 'bootstrap_sample_pattern': _inference('bootstrap_sample_pattern'),
    'boot_noise_ceiling': _inference('boot_noise_ceiling'),
    'sets_leave_one_out_rdm': _inference('sets_leave_one_out_rdm'),
    'sets_leave_one_out_pattern': _inference('sets_leave_one_out_pattern', pattern_descriptor='cond'),
    'sets_k_fold_pattern': _inference('sets_k_fold_pattern', k=2, random=False),
    'batch_to_matrices': _util('batch_to_matrices'), 'batch_to_vectors': _util('batch_to_vectors'),
}


# ---------------------------------------------------------------- result walking

def _results(res, depth=0):
    from rsatoolbox.rdm import RDMs
    from rsatoolbox.data.base import DatasetBase
    out = []
    if isinstance(res, (RDMs, DatasetBase, np.ndarray)):
        out.append(res)
    elif isinstance(res, (list, tuple)) and depth < 3:
        for r in res:
            out += _results(r, depth + 1)
    elif hasattr(res, 'rdm_obj') and hasattr(res, 'predict'):
        out.append(res.rdm_obj)
        if isinstance(getattr(res, 'rdm', None), np.ndarray):
            out.append(res.rdm)
    out = [r for r in out if r is not None and not (isinstance(r, np.ndarray) and r.dtype.kind not in 'fO')]
    return out[:6]


def _data_of(o):
    if isinstance(o, np.ndarray):
        return o
    for attr in ('dissimilarities', 'measurements'):
        if hasattr(o, attr):
            return getattr(o, attr)


def case_call(T, cfg):
    from rsatoolbox.rdm import RDMs
    from rsatoolbox.data.base import DatasetBase
    name = cfg['name']
    call, snaps = TABLE[name](T)
    res = call()
    key = f'C12:{name}'
    for s in snaps:
        s.check(T, 'after call', key + ':mutation')
    outs = _results(res)
    # (2a) array writes on the result never reach the arguments
    w = T.scalar('wfresh')
    for k, o in enumerate(outs):
        d = _data_of(o)
        if isinstance(d, np.ndarray) and d.size and (d.dtype == object or (not T.symbolic and d.dtype.kind == 'f')) and d.flags.writeable:
            d[(0,) * d.ndim] = w
    for s in snaps:
        s.check(T, 'after writing into the result', key + ':alias')
    # (2b) documented in-place operations on the result never reach the arguments
    for o in outs:
        try:
            if isinstance(o, RDMs) and o.n_cond >= 2:
                o.reorder(list(range(o.n_cond))[::-1])
                o.sort_by(**{next(k for k in o.pattern_descriptors if k != 'index'): 'alpha'}) \
                    if any(k != 'index' for k in o.pattern_descriptors) else None
                o.append(o.copy())
            elif isinstance(o, DatasetBase) and hasattr(o, 'sort_by') and o.n_obs >= 1 and o.obs_descriptors:
                o.sort_by(next(iter(o.obs_descriptors)))
        except (AssertionError, KeyError, ValueError, TypeError):
            pass
    for s in snaps:
        s.check(T, 'after in-place ops on the result', key + ':alias')
    # (2c) and vice versa: mutate the arguments, results built before must keep their content
    if name.startswith('bootstrap_sample'):
        T.concrete('callable ran', True)
        return          # a second call would square the number of draw outcomes; direction (2a/2b) is covered
    res2 = call()
    outs2 = _results(res2)
    before = []
    for o in outs2:
        d = _data_of(o)
        before.append((o, None if d is None else d.copy(),
                       {a: _canon(getattr(o, a)) for a in ('rdm_descriptors', 'pattern_descriptors', 'obs_descriptors',
                                                          'channel_descriptors') if hasattr(o, a)}))
    w2 = T.scalar('wfresh2')
    for s in snaps:
        d = s.data()
        if isinstance(d, np.ndarray) and d.size and (d.dtype == object or (not T.symbolic and d.dtype.kind == 'f')):
            d[(0,) * d.ndim] = w2
        o = s.obj
        try:
            if isinstance(o, RDMs):
                o.reorder(list(range(o.n_cond))[::-1])
            elif isinstance(o, DatasetBase) and hasattr(o, 'sort_by') and 'cond' in o.obs_descriptors:
                o.sort_by('cond')
        except (AssertionError, KeyError, ValueError, TypeError):
            pass
    for k, (o, d0, descs) in enumerate(before):
        d = _data_of(o)
        if d0 is not None and d0.size and tuple(d.shape) == tuple(d0.shape):
            T.eq(f'result[{k}] array unaffected by later changes to the arguments', d, d0, key=key + ':alias')
        for a, want in descs.items():
            T.concrete(f'result[{k}].{a} unaffected by later changes to the arguments', _canon(getattr(o, a)) == want,
                       f'{_canon(getattr(o, a))} vs {want}', key=key + ':alias')
    T.concrete('callable ran', True)


def case_inventory(T, cfg):
    """public callables discovered by introspection that are NOT in the table are reported (outside the claim)"""
    import inspect
    import rsatoolbox
    covered = ' '.join(TABLE)
    missing = []
    for modname in ('rdm', 'data', 'model', 'inference', 'util.pooling', 'util.inference_util', 'util.rdm_utils'):
        mod = __import__('rsatoolbox.' + modname, fromlist=['x'])
        for nm, f in vars(mod).items():
            if nm.startswith('_') or not callable(f) or getattr(f, '__module__', '').split('.')[0] != 'rsatoolbox':
                continue
            if nm not in covered and nm.split('_')[0] not in ('load', 'save'):
                missing.append(f'{modname}.{nm}')
    T.shared['missing'] = missing
    T.notes.append('public callables outside the curated table: ' + ', '.join(sorted(set(missing))))
    T.concrete('inventory computed', True, key='C12:inventory')


CASES = dict(call=case_call, inventory=case_inventory)
# branches z3 cannot decide here are "a pooled / leave-one-out RDM has zero norm" (outside the domain, DESIGN 3.3)
SKIP_UNKNOWN_BRANCHES = True
FEAS_TIMEOUT_MS = 3000
MAX_PATHS = dict(quick=400, thorough=2000)


def configs(tier):
    out = [dict(case='inventory')]
    for name in TABLE:
        out.append(dict(case='call', name=name))
    return out
