"""C03 -- RDM comparison measures equal their definitions for every pair of RDMs."""
import itertools
from fractions import Fraction

import numpy as np

from harness.common import total, dot, vmean, center, triu_pairs
from symx.core import R
from symx.run import sqrt

PROP = 'C03'


# ---------------------------------------------------------------- reference definitions

def contrast_matrix(n):
    rowsC = []
    for i, j in triu_pairs(n):
        r = [0] * n
        r[i], r[j] = 1, -1
        rowsC.append(r)
    return rowsC


def v_matrix(n, sigma=None):
    """V = (C Sigma C')**2 element-wise; sigma: None | list (variances) | matrix (list of lists)"""
    Cm = contrast_matrix(n)
    if sigma is None:
        S = [[1 if i == j else 0 for j in range(n)] for i in range(n)]
    elif not isinstance(sigma[0], (list, tuple, np.ndarray)):
        S = [[sigma[i] if i == j else 0 for j in range(n)] for i in range(n)]
    else:
        S = sigma
    m = len(Cm)
    xi = [[total(Cm[a][i] * S[i][j] * Cm[b][j] for i in range(n) for j in range(n) if Cm[a][i] and Cm[b][j])
           for b in range(m)] for a in range(m)]
    return [[xi[a][b] * xi[a][b] for b in range(m)] for a in range(m)]


def mat_inv(M):
    """exact inverse by Gauss-Jordan on python numbers / R (oracle side)"""
    n = len(M)
    A = [[Fraction(x) if isinstance(x, int) else x for x in row] + [Fraction(int(i == j)) for j in range(n)]
         for i, row in enumerate(M)]
    for c in range(n):
        p = next(r for r in range(c, n) if not (isinstance(A[r][c], (int, Fraction)) and A[r][c] == 0))
        A[c], A[p] = A[p], A[c]
        piv = A[c][c]
        A[c] = [x / piv for x in A[c]]
        for r in range(n):
            if r != c:
                f = A[r][c]
                if isinstance(f, (int, Fraction)) and f == 0:
                    continue
                A[r] = [x - f * y for x, y in zip(A[r], A[c])]
    return [row[n:] for row in A]


def quad(a, W, b):
    return total(a[i] * W[i][j] * b[j] for i in range(len(a)) for j in range(len(b))
                 if not (isinstance(W[i][j], (int, Fraction)) and W[i][j] == 0))


def ref_measure(method, a, b, Vinv=None):
    a, b = list(a), list(b)
    if method in ('corr', 'corr_cov'):
        a, b = center(a), center(b)
    if method in ('cosine', 'corr'):
        return dot(a, b) / (sqrt(dot(a, a)) * sqrt(dot(b, b)))
    return quad(a, Vinv, b) / (sqrt(quad(a, Vinv, a)) * sqrt(quad(b, Vinv, b)))


def lt(x, y):
    return bool(x < y)


def sign(x, y):
    """sign(x - y) by comparisons (forks only if the path condition leaves it open)"""
    if lt(x, y):
        return -1
    if lt(y, x):
        return 1
    return 0


def avg_ranks(v):
    n = len(v)
    out = []
    for i in range(n):
        less = sum(1 for j in range(n) if sign(v[j], v[i]) < 0)
        eq = sum(1 for j in range(n) if sign(v[j], v[i]) == 0)
        out.append(Fraction(2 * less + eq + 1, 2))
    return out


def ref_rank_measure(method, x, y):
    n = len(x)
    if method in ('spearman', 'rho-a'):
        rx, ry = avg_ranks(x), avg_ranks(y)
        cx, cy = center(rx), center(ry)
        if method == 'rho-a':
            return Fraction(12) * dot(cx, cy) / (n ** 3 - n)
        if dot(cx, cx) == 0 or dot(cy, cy) == 0:
            return None
        return R.const(dot(cx, cy)) / (R.const(dot(cx, cx)).sqrt() * R.const(dot(cy, cy)).sqrt())
    con = dis = tx = ty = 0
    for k, l in triu_pairs(n):
        sx, sy = sign(x[k], x[l]), sign(y[k], y[l])
        if sx * sy > 0:
            con += 1
        elif sx * sy < 0:
            dis += 1
        if sx == 0:
            tx += 1
        if sy == 0:
            ty += 1
    n0 = n * (n - 1) // 2
    if method == 'tau-a':
        return Fraction(con - dis, n0)
    if method in ('kendall', 'tau-b'):
        if n0 == tx or n0 == ty:
            return None
        return R.const(con - dis) / (R.const((n0 - tx) * (n0 - ty)).sqrt())
    raise ValueError(method)


# ---------------------------------------------------------------- helpers

def _stacks(T, cfg):
    from rsatoolbox.rdm import RDMs
    n = cfg['n_cond']
    nd = n * (n - 1) // 2
    A_ = T.arr('a', (cfg['n1'], nd))
    B_ = T.arr('b', (cfg['n2'], nd))
    mk = {'rdms': lambda X: RDMs(X, pattern_descriptors={'c': list(range(n))}),
          'array': lambda X: X,
          'vec': lambda X: X[0] if X.shape[0] == 1 else X}
    return A_, B_, mk[cfg.get('in1', 'rdms')](A_), mk[cfg.get('in2', 'rdms')](B_)


def _assume_nonzero(T, method, *stacks):
    for S in stacks:
        for v in S:
            v = list(v)
            if method in ('corr', 'corr_cov'):
                v = center(v)
            T.assume(dot(v, v) > 0)


def _sigma(T, cfg):
    n = cfg['n_cond']
    kind = cfg.get('sigma', 'none')
    if kind == 'none':
        return None, None
    if kind == 'vector':
        s = T.arr('sk', (n,), positive=True)
        return s, list(s)
    if kind == 'cvector':
        vals = [Fraction(1), Fraction(2), Fraction(1, 2), Fraction(3)][:n]
        return np.array([float(v) for v in vals]), vals
    if kind == 'cdiag':
        vals = [Fraction(1), Fraction(2), Fraction(1, 2), Fraction(3)][:n]
        return np.diag([float(v) for v in vals]), vals
    if kind == 'cmatrix':
        # SPD matrix with off-diagonal terms (concrete rational), data stay symbolic
        base = [[Fraction(2), Fraction(1, 2), Fraction(0), Fraction(1, 4)],
                [Fraction(1, 2), Fraction(1), Fraction(1, 4), Fraction(0)],
                [Fraction(0), Fraction(1, 4), Fraction(3, 2), Fraction(1, 2)],
                [Fraction(1, 4), Fraction(0), Fraction(1, 2), Fraction(1)]]
        M = [row[:n] for row in base[:n]]
        return np.array([[float(x) for x in row] for row in M]), M
    if kind == 'ceqdiag':
        # SPD matrix with a CONSTANT diagonal and non-zero covariances (AR(1), rho = 1/2): equal variances do not
        # make the identity fast path valid
        M = [[Fraction(1, 2 ** abs(i - j)) for j in range(n)] for i in range(n)]
        return np.array([[float(x) for x in row] for row in M]), M
    raise ValueError(kind)


# ---------------------------------------------------------------- cases

def case_ident(T, cfg):
    """entry (i,j) = reference measure of rdm1[i], rdm2[j]"""
    from rsatoolbox.rdm import compare
    A_, B_, in1, in2 = _stacks(T, cfg)
    method = cfg['method']
    kw = {}
    Vinv = None
    if method.endswith('_cov'):
        sk, sk_ref = _sigma(T, cfg)
        if sk is not None:
            kw['sigma_k'] = sk
        Vinv = mat_inv(v_matrix(cfg['n_cond'], sk_ref))
    _assume_nonzero(T, method, A_, B_)
    got = compare(in1, in2, method, **kw)
    T.concrete('shape', tuple(np.shape(got)) == (cfg['n1'], cfg['n2']), str(np.shape(got)))
    want = [[ref_measure(method, A_[i], B_[j], Vinv) for j in range(cfg['n2'])] for i in range(cfg['n1'])]
    T.eq('sim', got, np.array(want, dtype=object if T.symbolic else float),
         key=f"C03:ident:{method}:{cfg.get('sigma', 'none')}")


def case_sigma_forms(T, cfg):
    """whitened measures: variance vector and the equivalent diagonal matrix give the same answer"""
    from rsatoolbox.rdm import compare
    A_, B_, in1, in2 = _stacks(T, cfg)
    method = cfg['method']
    _assume_nonzero(T, method, A_, B_)
    vals = [Fraction(1), Fraction(2), Fraction(1, 2), Fraction(3)][:cfg['n_cond']]
    vec = np.array([float(v) for v in vals])
    r_vec = compare(in1, in2, method, sigma_k=vec)
    r_mat = compare(in1, in2, method, sigma_k=np.diag(vec))
    T.eq('vector==diag matrix', r_mat, r_vec, key=f'C03:sigma_forms:{method}')


def case_getv(T, cfg):
    """V derived from the pattern covariance = (C Sigma C')^2 element-wise (None, vector, matrix)"""
    import sys
    import rsatoolbox.rdm
    import rsatoolbox.util.matrix as um
    cmp = sys.modules['rsatoolbox.rdm.compare']
    n = cfg['n_cond']
    kind = cfg['sigma']
    if kind == 'none':
        sk, ref = None, None
    elif kind == 'vector':
        sk = T.arr('sk', (n,), positive=True)
        ref = list(sk)
    else:
        u = T.arr('sm', (n * (n + 1) // 2,))
        M = np.empty((n, n), dtype=object if T.symbolic else float)
        k = 0
        for i in range(n):
            for j in range(i, n):
                M[i, j] = M[j, i] = u[k]
                k += 1
        if T.symbolic:
            from symx.arrays import wrap
            M = wrap(M)
        sk, ref = M, [list(r) for r in M]
    want = v_matrix(n, ref)
    for nm, f in (('compare._get_v', cmp._get_v), ('matrix.get_v', um.get_v)):
        if nm == 'matrix.get_v' and kind == 'vector':
            continue        # util.matrix.get_v documents a matrix (or None) argument only
        v = f(n, sk)
        v = v.toarray() if hasattr(v, 'toarray') else np.asarray(v)
        T.eq(nm, v, np.array(want, dtype=object if T.symbolic else float), key=f'C03:getv:{kind}')


def _perm_vec(vec, n, perm):
    """RDM vector after relabelling conditions: new condition k = old condition perm[k]"""
    from harness.C09 import pair_index
    return [vec[pair_index(n, perm[i], perm[j])] for i, j in triu_pairs(n)]


def case_props(T, cfg):
    """symmetry, self-similarity 1, invariance under simultaneous condition permutation"""
    from rsatoolbox.rdm import compare, RDMs
    A_, B_, in1, in2 = _stacks(T, cfg)
    method = cfg['method']
    kw = {}
    if method.endswith('_cov') and cfg.get('sigma', 'none') != 'none':
        sk, _ = _sigma(T, cfg)
        kw['sigma_k'] = sk
    _assume_nonzero(T, method, A_, B_)
    n = cfg['n_cond']
    ab = compare(in1, in2, method, **kw)
    ba = compare(in2, in1, method, **kw)
    key = f"C03:props:{method}"
    T.eq('symmetry', ab, np.asarray(ba).T, key=key)
    aa = compare(in1, in1, method, **kw)
    T.eq('self', [aa[i, i] for i in range(cfg['n1'])], [1] * cfg['n1'], key=key)
    if 'sigma_k' not in kw:
        for perm in cfg['perms']:
            pa = np.array([_perm_vec(list(v), n, perm) for v in A_], dtype=object if T.symbolic else float)
            pb = np.array([_perm_vec(list(v), n, perm) for v in B_], dtype=object if T.symbolic else float)
            if T.symbolic:
                from symx.arrays import wrap
                pa, pb = wrap(pa), wrap(pb)
            T.eq(f'perm{perm}', compare(RDMs(pa), RDMs(pb), method), ab, key=key)


def case_rank(T, cfg):
    """rank measures: every weak ordering of both vectors (forking), exact counts with ties"""
    from rsatoolbox.rdm import compare
    A_, B_, in1, in2 = _stacks(T, cfg)
    method = cfg['method']
    got = compare(in1, in2, method)
    for i in range(cfg['n1']):
        for j in range(cfg['n2']):
            want = ref_rank_measure(method, list(A_[i]), list(B_[j]))
            if want is None:
                T.concrete('undefined (constant vector) - outside', True)
                continue
            T.eq(f'{method}[{i},{j}]', got[i, j], want, key=f'C03:rank:{method}')
    # self-similarity and symmetry on the same path
    if cfg.get('props'):
        ba = compare(in2, in1, method)
        T.eq('symmetry', got, np.asarray(ba).T, key=f'C03:rank:{method}:sym')


def case_range(T, cfg):
    """|sim| <= 1 for cosine / corr / whitened: solver-checked Lagrange identity + abstraction"""
    import z3
    from symx import core
    from rsatoolbox.rdm import compare
    A_, B_, in1, in2 = _stacks(T, cfg)
    method = cfg['method']
    _assume_nonzero(T, method, A_, B_)
    a, b = list(A_[0]), list(B_[0])
    if method == 'corr':
        a, b = center(a), center(b)
    m = len(a)
    # (i) lemma: Lagrange's identity on the concrete polynomials, proved by the solver
    lhs = dot(a, a) * dot(b, b) - dot(a, b) * dot(a, b)
    rhs = total((a[i] * b[j] - a[j] * b[i]) * (a[i] * b[j] - a[j] * b[i]) for i, j in triu_pairs(m))
    T.eq('lagrange identity', lhs, rhs, key=f'C03:range:{method}')
    # (ii) the code's output is  (a.b)/(sqrt(a.a) sqrt(b.b))  -- obligation of case_ident, repeated here
    got = compare(in1, in2, method)
    T.eq('sim', got[0, 0], dot(a, b) / (sqrt(dot(a, a)) * sqrt(dot(b, b))), key=f'C03:range:{method}')
    # (iii) goal on the abstraction: p=a.a, q=b.b, r=a.b fresh reals with p q - r^2 = S >= 0 (sum of squares)
    if T.symbolic:
        p, q, r, s1, s2 = z3.Reals('p q r s1 s2')
        cons = [p > 0, q > 0, p * q - r * r >= 0, s1 >= 0, s2 >= 0, s1 * s1 == p, s2 * s2 == q]
        res = core.check(cons + [z3.Or(r > s1 * s2, r < -s1 * s2)])
        T.concrete('abstract goal |r| <= s1 s2 (solver)', res == 'unsat', res, key=f'C03:range:{method}')
        # vacuity guard: the abstraction is satisfiable
        T.concrete('abstraction satisfiable', core.check(cons) == 'sat')
    else:
        v = float(got[0, 0])
        T.concrete('range', -1 - 1e-9 <= v <= 1 + 1e-9, str(v), key=f'C03:range:{method}')


CASES = dict(ident=case_ident, sigma_forms=case_sigma_forms, getv=case_getv, props=case_props, rank=case_rank,
             range=case_range)
MAX_PATHS = dict(quick=3000, thorough=40000)


def configs(tier):
    quick = tier == 'quick'
    out = []
    for method in ['cosine', 'corr']:
        for n in ([3, 4] if quick else [3, 4, 5]):
            for (n1, n2, i1, i2) in [(1, 1, 'rdms', 'rdms'), (2, 2, 'rdms', 'array'), (1, 2, 'vec', 'rdms')] + \
                    ([] if quick else [(3, 2, 'array', 'array'), (2, 1, 'rdms', 'vec')]):
                out.append(dict(case='ident', method=method, n_cond=n, n1=n1, n2=n2, in1=i1, in2=i2))
            out.append(dict(case='range', method=method, n_cond=n, n1=1, n2=1))
        out.append(dict(case='props', method=method, n_cond=3, n1=2, n2=2,
                        perms=list(itertools.permutations(range(3)))))
        out.append(dict(case='props', method=method, n_cond=4, n1=1, n2=1,
                        perms=list(itertools.permutations(range(4)))[::(5 if quick else 1)]))
    for method in ['cosine_cov', 'corr_cov']:
        for n in [3, 4]:
            sigs = ['none', 'cvector', 'cdiag', 'cmatrix'] + (['vector'] if n == 3 else [])
            for sig in sigs:
                for (n1, n2, i1, i2) in [(1, 1, 'rdms', 'rdms'), (2, 1, 'rdms', 'array')] + \
                        ([] if quick else [(2, 2, 'array', 'rdms')]):
                    if n == 4 and (n1, n2) != (1, 1) and quick:
                        continue
                    out.append(dict(case='ident', method=method, n_cond=n, n1=n1, n2=n2, in1=i1, in2=i2, sigma=sig))
            out.append(dict(case='ident', method=method, n_cond=n, n1=1, n2=1, in1='rdms', in2='rdms', sigma='ceqdiag'))
            out.append(dict(case='sigma_forms', method=method, n_cond=n, n1=1, n2=2))
            out.append(dict(case='props', method=method, n_cond=n, n1=2 if n == 3 else 1, n2=2 if n == 3 else 1,
                            perms=list(itertools.permutations(range(n)))[::(1 if n == 3 else 5)]))
            out.append(dict(case='props', method=method, n_cond=n, n1=1, n2=1, sigma='cvector', perms=[]))
    for n in [3, 4]:
        for sig in ['none', 'vector', 'matrix']:
            out.append(dict(case='getv', n_cond=n, sigma=sig))
    for method in ['spearman', 'rho-a', 'tau-a', 'kendall']:
        out.append(dict(case='rank', method=method, n_cond=3, n1=1, n2=1, props=True))
        if not quick:
            out.append(dict(case='rank', method=method, n_cond=3, n1=2, n2=1, in1='array', in2='rdms'))
    return out
