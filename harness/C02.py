"""C02 -- cross-validated distances are the mean of between-fold products only."""
import itertools
from fractions import Fraction

import numpy as np

from harness.common import labels_for, as_desc, total, mean_rows, dot, center, triu_pairs, rows, LABELSETS
from harness.C01 import np_sorted
from symx.run import log

PROP = 'C02'

FOLDLABELS = {'int': [0, 1, 2, 3], 'intgap': [7, 2, 5, 1], 'str': ['s2', 's1', 's3', 's0']}


def _sym_mat(T, name, P):
    u = T.arr(name, (P * (P + 1) // 2,))
    M = np.empty((P, P), dtype=object if T.symbolic else float)
    k = 0
    for i in range(P):
        for j in range(i, P):
            M[i, j] = u[k]
            M[j, i] = u[k]
            k += 1
    if T.symbolic:
        from symx.arrays import wrap
        return wrap(M)
    return M


def _inv(M):
    """symbolic / float inverse for 1x1 and 2x2 (oracle side, independent of the engine's Gauss-Jordan)"""
    P = len(M)
    if P == 1:
        return [[1 / M[0][0]]]
    if P == 2:
        det = M[0][0] * M[1][1] - M[0][1] * M[1][0]
        return [[M[1][1] / det, -M[0][1] / det], [-M[1][0] / det, M[0][0] / det]]
    raise ValueError


def _layout(cfg):
    """rows as (cond block, fold block) in the configured order"""
    C_, M, Rp = cfg['n_cond'], cfg['n_fold'], cfg['reps']
    base = [(c, m) for m in range(M) for c in range(C_) for _ in range(Rp)]
    o = cfg['order']
    if o == 'foldmajor':
        return base
    if o == 'condmajor':
        return sorted(base, key=lambda t: (t[0], t[1]))
    if o == 'reversed':
        return base[::-1]
    if o == 'rotated':
        return base[1:] + base[:1]
    if o == 'interleaved':
        return base[::2] + base[1::2]
    raise ValueError(o)


def _setup(T, cfg, positive=False):
    from rsatoolbox.data import Dataset
    lay = _layout(cfg)
    P = cfg['n_chan']
    X = T.arr('x', (len(lay), P), positive=positive)
    cperm = cfg.get('cperm') or list(range(cfg['n_cond']))
    cl = [LABELSETS[cfg['labkind']][cperm[c]] for c, _ in lay]
    obs = {'cond': as_desc(cl, cfg['container'])}
    if cfg['cv'] == 'explicit':
        fl = [FOLDLABELS[cfg['foldkind']][m] for _, m in lay]
        obs['fold'] = as_desc(fl, cfg['container'])
    else:
        # documented default: the k-th occurrence of a condition forms fold k
        seen = {}
        fl = []
        for c in cl:
            fl.append(seen.get(c, 0))
            seen[c] = seen.get(c, 0) + 1
    ds = Dataset(X, descriptors={'subj': 'x'}, obs_descriptors=obs)
    return ds, X, cl, fl


def _fold_means(X, cl, fl, remove_mean=False):
    folds = sorted(set(fl), key=lambda v: list(np.unique(np.array(fl))).index(v))
    conds = sorted(set(cl), key=lambda v: list(np.unique(np.array(cl))).index(v))
    means = {}
    for f in folds:
        for c in conds:
            rws = [list(X[i]) for i in range(len(cl)) if cl[i] == c and fl[i] == f]
            m = mean_rows(rws)
            means[c, f] = center(m) if remove_mean else m
    return folds, conds, means


def case_crossnobis(T, cfg):
    from rsatoolbox.rdm import calc_rdm
    ds, X, cl, fl = _setup(T, cfg)
    P = cfg['n_chan']
    kw = {}
    precs = None
    prec = None
    if cfg['noise'] == 'matrix':
        prec = _sym_mat(T, 'prec', P)
        kw['noise'] = prec
    elif cfg['noise'] == 'perfold':
        nf = len(set(fl))
        precs = [_sym_mat(T, f'prec{i}', P) for i in range(nf)]
        kw['noise'] = list(precs) if cfg.get('noise_container', 'list') == 'list' else np.array(precs)
    if cfg['cv'] == 'explicit':
        kw['cv_descriptor'] = 'fold'
    if cfg.get('remove_mean'):
        kw['remove_mean'] = True
    rdm = calc_rdm(ds, method='crossnobis', descriptor='cond', **kw)
    folds, conds, means = _fold_means(X, cl, fl, cfg.get('remove_mean', False))
    got_labels = list(rdm.pattern_descriptors['cond'])
    T.concrete('labels', got_labels == np_sorted(cl), f'{got_labels}')
    M = len(folds)
    wants = []
    for i, j in triu_pairs(len(got_labels)):
        a, b = got_labels[i], got_labels[j]
        acc = 0
        for mi, m in enumerate(folds):
            for ni, n in enumerate(folds):
                if mi == ni:
                    continue
                dm = [x - y for x, y in zip(means[a, m], means[b, m])]
                dn = [x - y for x, y in zip(means[a, n], means[b, n])]
                if precs is not None:
                    vm, vn = _inv(rows(precs[mi])), _inv(rows(precs[ni]))
                    avg = [[(vm[p][q] + vn[p][q]) / 2 for q in range(P)] for p in range(P)]
                    N = _inv(avg)
                elif prec is not None:
                    N = rows(prec)
                else:
                    N = [[1 if p == q else 0 for q in range(P)] for p in range(P)]
                acc = acc + total(dm[p] * N[p][q] * dn[q] for p in range(P) for q in range(P))
        wants.append(acc / (M * (M - 1)) / P)
    T.eq('pair', rdm.dissimilarities[0], wants,
         key=f"C02:crossnobis:{cfg['noise']}" + (':remove_mean' if cfg.get('remove_mean') else ''))


def case_poisson_cv(T, cfg):
    from rsatoolbox.rdm import calc_rdm
    ds, X, cl, fl = _setup(T, cfg, positive=True)
    P = cfg['n_chan']
    lam = T.scalar('lam', positive=True)
    w = T.scalar('w', positive=True)
    kw = dict(prior_lambda=lam, prior_weight=w)
    if cfg['cv'] == 'explicit':
        kw['cv_descriptor'] = 'fold'
    rdm = calc_rdm(ds, method='poisson_cv', descriptor='cond', **kw)
    folds, conds, means = _fold_means(X, cl, fl)
    rate = {k: [(x + lam * w) / (1 + w) for x in v] for k, v in means.items()}
    got_labels = list(rdm.pattern_descriptors['cond'])
    T.concrete('labels', got_labels == np_sorted(cl), f'{got_labels}')
    M = len(folds)
    wants = []
    for i, j in triu_pairs(len(got_labels)):
        a, b = got_labels[i], got_labels[j]
        acc = 0
        for m in folds:
            for n in folds:
                if m == n:
                    continue
                acc = acc + total((rate[a, m][k] - rate[b, m][k]) * (log(rate[a, n][k]) - log(rate[b, n][k]))
                                  for k in range(P))
        wants.append(acc / (M * (M - 1)) / P)
    T.eq('pair', rdm.dissimilarities[0], wants, key='C02:poisson_cv')


CASES = dict(crossnobis=case_crossnobis, poisson_cv=case_poisson_cv)


def configs(tier):
    out = []
    quick = tier == 'quick'
    shapes = [(2, 2, 1), (3, 2, 1), (2, 3, 1), (2, 2, 2), (3, 3, 1)] if quick else \
        [(2, 2, 1), (3, 2, 1), (2, 3, 1), (2, 2, 2), (3, 3, 1), (3, 2, 2), (2, 3, 2), (3, 3, 2), (2, 4, 1), (4, 2, 1)]
    orders = ['foldmajor', 'condmajor', 'rotated'] if quick else ['foldmajor', 'condmajor', 'reversed', 'rotated', 'interleaved']
    for si, (C_, M, Rp) in enumerate(shapes):
        small = C_ * M * Rp <= 6
        for order in orders:
            if quick:
                kinds = [('int', 'intgap', 'array'), ('str', 'str', 'list')]
            elif small:
                kinds = [('int', 'int', 'array'), ('int', 'intgap', 'array'), ('str', 'str', 'list'), ('intgap', 'str', 'array')]
            else:
                kinds = [('int', 'intgap', 'array'), ('str', 'str', 'list')]
            for labkind, foldkind, container in kinds:
                cperms = [list(range(C_)), list(range(C_))[::-1]]
                for cperm in (cperms[1:] if (quick or not small) else cperms):
                    for cv in ['explicit', 'default']:
                        if cv == 'default' and Rp > 1 and quick:
                            continue
                        base = dict(n_cond=C_, n_fold=M, reps=Rp, order=order, labkind=labkind, foldkind=foldkind,
                                    container=container, cperm=cperm, cv=cv)
                        for noise in ['none', 'matrix', 'perfold']:
                            for n_chan in [1, 2]:
                                nfolds = M * (1 if cv == 'explicit' else Rp)
                                if noise != 'perfold' and n_chan == 1 and (quick or not small):
                                    continue
                                # per-fold precisions: nested symbolic inverses; bound = 2 folds x 2 channels x 2 conds
                                # or <=3 folds x 1 channel (3 folds x 2 channels: z3 unknown at 50 s, outside)
                                if noise == 'perfold' and not ((nfolds == 2 and n_chan == 2 and C_ == 2) or
                                                               (nfolds <= 3 and n_chan == 1)):
                                    continue
                                if noise == 'perfold' and order in ('condmajor', 'interleaved'):
                                    continue
                                if noise == 'perfold' and n_chan == 2 and labkind != 'str':
                                    continue
                                rms = [False] if (noise != 'none' and (quick or not small)) or noise == 'perfold' else [False, True]
                                for rm in rms:
                                    if rm and n_chan == 1:
                                        continue
                                    out.append(dict(base, case='crossnobis', noise=noise, n_chan=n_chan, remove_mean=rm))
                        if C_ * M * Rp <= 8:
                            out.append(dict(base, case='poisson_cv', n_chan=2))
    if not quick:
        out.append(dict(n_cond=2, n_fold=2, reps=1, order='rotated', labkind='str', foldkind='int', container='array',
                        cperm=[1, 0], cv='explicit', case='crossnobis', noise='perfold', n_chan=2, remove_mean=False,
                        noise_container='array'))
        out.append(dict(n_cond=2, n_fold=2, reps=1, order='rotated', labkind='str', foldkind='int', container='array',
                        cperm=[1, 0], cv='explicit', case='crossnobis', noise='perfold', n_chan=2, remove_mean=True))
    return out
