"""C01 -- RDM estimators equal their formula on condition means, correctly labelled."""
import itertools
from fractions import Fraction

import numpy as np

from harness.common import (rgs, labels_for, as_desc, total, mean_rows, dot, vmean, center, triu_pairs, rows,
                            LABELSETS)
from symx.run import sqrt, log

PROP = 'C01'
METHODS = ['euclidean', 'correlation', 'mahalanobis', 'poisson']


def np_sorted(labels):
    return list(np.unique(np.array(labels)))


def sym_prec(T, P):
    """symmetric symbolic precision matrix built from upper-triangular variables"""
    u = T.arr('prec', (P * (P + 1) // 2,))
    M = np.empty((P, P), dtype=object if T.symbolic else float)
    k = 0
    for i in range(P):
        for j in range(i, P):
            M[i, j] = u[k]
            M[j, i] = u[k]
            k += 1
    if T.symbolic:
        from symx.arrays import wrap
        return wrap(M)
    return M


def formula(method, a, b, P, remove_mean=False, prec=None, lam=None, w=None):
    """the method's definition on two mean patterns a, b (lists)"""
    if method == 'correlation':
        ac, bc = center(a), center(b)
        return 1 - dot(ac, bc) / (sqrt(dot(ac, ac)) * sqrt(dot(bc, bc)))
    if method in ('euclidean', 'mahalanobis'):
        if remove_mean:
            a, b = center(a), center(b)
        d = [x - y for x, y in zip(a, b)]
        if method == 'euclidean' or prec is None:
            return dot(d, d) / P
        return total(d[i] * prec[i][j] * d[j] for i in range(P) for j in range(P)) / P
    if method == 'poisson':
        la = [(x + lam * w) / (1 + w) for x in a]
        lb = [(x + lam * w) / (1 + w) for x in b]
        return total((x - y) * (log(x) - log(y)) for x, y in zip(la, lb)) / P
    raise ValueError(method)


def _dataset(T, cfg, name='x', pattern=None, descs=True):
    from rsatoolbox.data import Dataset
    pat = pattern if pattern is not None else cfg['pattern']
    P = cfg['n_chan']
    X = T.arr(name, (len(pat), P), positive=(cfg['method'] == 'poisson'))
    labels = labels_for(pat, cfg['labkind'], cfg.get('perm'))
    obs = {'cond': as_desc(labels, cfg['container'])}
    if cfg.get('extra'):
        obs['grp'] = as_desc(['g%s' % l for l in labels], cfg['container'])   # constant within condition
        obs['run'] = as_desc(list(range(len(pat))), cfg['container'])         # varies within condition
    ds = Dataset(X, descriptors={'subj': name}, obs_descriptors=obs,
                 channel_descriptors={'ch': ['c%d' % i for i in range(P)]})
    return ds, X, labels


def _kwargs(T, cfg):
    kw = {}
    extra = {}
    if cfg['method'] == 'mahalanobis' and cfg.get('noise', True):
        prec = sym_prec(T, cfg['n_chan'])
        kw['noise'] = prec
        extra['prec'] = rows(prec)
    if cfg['method'] == 'poisson':
        lam = T.scalar('lam', positive=True)
        w = T.scalar('w', positive=True)
        kw['prior_lambda'] = lam
        kw['prior_weight'] = w
        extra['lam'] = lam
        extra['w'] = w
    if cfg.get('remove_mean'):
        kw['remove_mean'] = True
        extra['remove_mean'] = True
    return kw, extra


def _check_rdm(T, tag, rdm_vec, got_labels, X, labels, cfg, extra):
    """value obligations keyed by *label pair*"""
    P = cfg['n_chan']
    means = {}
    for lab in set(labels):
        means[lab] = mean_rows([list(X[i]) for i in range(len(labels)) if labels[i] == lab])
    wants = []
    for i, j in triu_pairs(len(got_labels)):
        wants.append(formula(cfg['method'], means[got_labels[i]], means[got_labels[j]], P, **extra))
    T.eq(tag, rdm_vec, wants, key=f"C01:{cfg['case']}:{cfg['method']}" + (':remove_mean' if cfg.get('remove_mean') else ''))


def case_single(T, cfg):
    from rsatoolbox.rdm import calc_rdm
    ds, X, labels = _dataset(T, cfg)
    kw, extra = _kwargs(T, cfg)
    rdm = calc_rdm(ds, method=cfg['method'], descriptor='cond', **kw)
    want_labels = np_sorted(labels)
    got_labels = list(rdm.pattern_descriptors['cond'])
    T.concrete('labels', got_labels == want_labels, f'{got_labels} vs {want_labels}')
    T.concrete('n_cond', rdm.n_cond == len(want_labels) and rdm.n_rdm == 1)
    T.concrete('rdm_desc', list(rdm.rdm_descriptors.get('subj', [])) == ['x'], str(rdm.rdm_descriptors))
    if len(got_labels) != len(want_labels):
        return
    _check_rdm(T, 'pair', rdm.dissimilarities[0], got_labels, X, labels, cfg, extra)
    if cfg.get('extra') and len(set(labels)) < len(labels):
        g = rdm.pattern_descriptors.get('grp')
        T.concrete('const-desc carried', g is not None and list(g) == ['g%s' % l for l in got_labels], str(g))
        T.concrete('varying-desc dropped', 'run' not in rdm.pattern_descriptors, str(rdm.pattern_descriptors.keys()))
    # vector and matrix form agree
    m = rdm.get_matrices()[0]
    k = 0
    for i, j in triu_pairs(rdm.n_cond):
        T.eq('matrix', m[i, j], rdm.dissimilarities[0][k])
        T.eq('matrix-sym', m[j, i], rdm.dissimilarities[0][k])
        k += 1


def case_nodesc(T, cfg):
    """descriptor=None: one row per observation, obs descriptors become pattern descriptors"""
    from rsatoolbox.rdm import calc_rdm
    ds, X, labels = _dataset(T, cfg)
    kw, extra = _kwargs(T, cfg)
    rdm = calc_rdm(ds, method=cfg['method'], **kw)
    n = len(labels)
    T.concrete('n_cond', rdm.n_cond == n)
    T.concrete('pattern desc', list(rdm.pattern_descriptors['cond']) == list(labels))
    P = cfg['n_chan']
    wants = [formula(cfg['method'], list(X[i]), list(X[j]), P, **extra) for i, j in triu_pairs(n)]
    T.eq('pair', rdm.dissimilarities[0], wants, key=f"C01:nodesc:{cfg['method']}")


def case_list(T, cfg):
    """list of two datasets (possibly different condition sets): same values as single calls"""
    from rsatoolbox.rdm import calc_rdm
    ds1, X1, l1 = _dataset(T, cfg, 'x', cfg['pattern'])
    ds2, X2, l2 = _dataset(T, dict(cfg, perm=cfg.get('perm2')), 'y', cfg['pattern2'])
    kw, extra = _kwargs(T, cfg)
    rdm = calc_rdm([ds1, ds2], method=cfg['method'], descriptor='cond', **kw)
    T.concrete('n_rdm', rdm.n_rdm == 2)
    allp = list(rdm.pattern_descriptors['cond'])
    T.concrete('union', sorted(map(str, allp)) == sorted(map(str, set(l1) | set(l2))), str(allp))
    T.concrete('subj', list(rdm.rdm_descriptors.get('subj', [])) == ['x', 'y'], str(rdm.rdm_descriptors))
    P = cfg['n_chan']
    for r, (X, labels) in enumerate([(X1, l1), (X2, l2)]):
        means = {lab: mean_rows([list(X[i]) for i in range(len(labels)) if labels[i] == lab]) for lab in set(labels)}
        wants = []
        for i, j in triu_pairs(len(allp)):
            if allp[i] in means and allp[j] in means:
                wants.append(formula(cfg['method'], means[allp[i]], means[allp[j]], P, **extra))
            else:
                wants.append(np.nan)
        T.eq(f'rdm{r}', rdm.dissimilarities[r], wants,
             key=f"C01:list:{cfg['method']}" + (':remove_mean' if cfg.get('remove_mean') else ''))


def case_list_nodesc(T, cfg):
    from rsatoolbox.rdm import calc_rdm
    ds1, X1, l1 = _dataset(T, cfg, 'x', cfg['pattern'])
    ds2, X2, l2 = _dataset(T, cfg, 'y', cfg['pattern'])
    kw, extra = _kwargs(T, cfg)
    rdm = calc_rdm([ds1, ds2], method=cfg['method'], **kw)
    P = cfg['n_chan']
    n = len(l1)
    T.concrete('n_rdm', rdm.n_rdm == 2 and rdm.n_cond == n)
    for r, X in enumerate([X1, X2]):
        wants = [formula(cfg['method'], list(X[i]), list(X[j]), P, **extra) for i, j in triu_pairs(n)]
        T.eq(f'rdm{r}', rdm.dissimilarities[r], wants,
             key=f"C01:list_nodesc:{cfg['method']}" + (':remove_mean' if cfg.get('remove_mean') else ''))


def case_movie(T, cfg):
    """RDM movie == stack of RDMs computed per (binned) time point"""
    from rsatoolbox.data import TemporalDataset
    from rsatoolbox.rdm import calc_rdm_movie
    pat = cfg['pattern']
    P, nt = cfg['n_chan'], cfg['n_time']
    X = T.arr('x', (len(pat), P, nt), positive=(cfg['method'] == 'poisson'))
    labels = labels_for(pat, cfg['labkind'], cfg.get('perm'))
    times = cfg['times']
    ds = TemporalDataset(X, descriptors={'subj': 'x'}, obs_descriptors={'cond': as_desc(labels, cfg['container'])},
                         channel_descriptors={'ch': list(range(P))}, time_descriptors={'time': np.array(times)})
    kw, extra = _kwargs(T, cfg)
    kw.pop('remove_mean', None)
    extra.pop('remove_mean', None)
    bins = cfg.get('bins')
    if bins is not None:
        bins = [np.array(b) for b in bins]
    rdm = calc_rdm_movie(ds, method=cfg['method'], descriptor='cond', bins=bins, **kw)
    got_labels = list(rdm.pattern_descriptors['cond'])
    T.concrete('labels', got_labels == np_sorted(labels))
    if bins is None:
        groups = [[k for k in range(nt) if times[k] == tv] for tv in list(dict.fromkeys(times))]
        tvals = list(dict.fromkeys(times))
    else:
        groups = [[k for k in range(nt) if times[k] in list(b)] for b in bins]
        tvals = [np.mean(b) for b in bins]
    # one frame per time point: with repeated time values, every slice of that value becomes observations
    T.concrete('n_frames', rdm.n_rdm == len(groups), f'{rdm.n_rdm} vs {len(groups)}')
    T.concrete('time desc', [float(x) for x in rdm.rdm_descriptors['time']] == [float(x) for x in tvals],
               str(rdm.rdm_descriptors['time']))
    for f, g in enumerate(groups):
        means = {}
        for lab in set(labels):
            rws = []
            for i in range(len(labels)):
                if labels[i] == lab:
                    if bins is None:
                        for k in g:
                            rws.append([X[i, c, k] for c in range(P)])
                    else:
                        rws.append(mean_rows([[X[i, c, k] for c in range(P)] for k in g]))
            means[lab] = mean_rows(rws)
        wants = [formula(cfg['method'], means[got_labels[i]], means[got_labels[j]], P, **extra)
                 for i, j in triu_pairs(len(got_labels))]
        T.eq(f'frame{f}', rdm.dissimilarities[f], wants, key=f"C01:movie:{cfg['method']}")


CASES = dict(single=case_single, nodesc=case_nodesc, list=case_list, list_nodesc=case_list_nodesc, movie=case_movie)


def configs(tier):
    out = []
    max_obs = 4 if tier == 'quick' else 6
    max_k = 3 if tier == 'quick' else 4
    for method in METHODS:
        rms = [False, True] if method in ('euclidean', 'mahalanobis') else [False]
        for n_obs in range(2, max_obs + 1):
            for pat in rgs(n_obs, 2, max_k):
                k = max(pat) + 1
                perms = list(itertools.permutations(range(k)))
                if tier == 'quick':
                    perms = [perms[0], perms[-1]] + ([perms[len(perms) // 2]] if k > 2 else [])
                variants = []
                for pi, perm in enumerate(perms):
                    variants.append(('int', perm, 'array'))
                variants.append(('str', perms[-1], 'list'))
                variants.append(('intgap', perms[0], 'list'))
                if tier != 'quick':
                    variants.append(('strnum', perms[0], 'array'))
                    variants.append(('str', perms[0], 'array'))
                for labkind, perm, container in variants:
                    for rm in rms:
                        if n_obs > 5 and (rm or labkind not in ('int', 'str')):
                            continue
                        n_chan = 3 if method == 'correlation' else 2
                        out.append(dict(case='single', method=method, pattern=pat, labkind=labkind, perm=perm,
                                        container=container, n_chan=n_chan, remove_mean=rm,
                                        extra=(container == 'list')))
        # 3 channels for all, one unbalanced pattern
        out.append(dict(case='single', method=method, pattern=(0, 1, 0, 2, 1, 0) if tier != 'quick' else (0, 1, 0, 2),
                        labkind='str', perm=(2, 0, 1), container='array', n_chan=3, remove_mean=False, extra=True))
        for rm in rms:
            out.append(dict(case='nodesc', method=method, pattern=(0, 1, 2), labkind='str', perm=(1, 0, 2),
                            container='list', n_chan=3 if method == 'correlation' else 2, remove_mean=rm))
            if tier != 'quick':
                out.append(dict(case='nodesc', method=method, pattern=(0, 1, 2, 0), labkind='int', perm=(2, 1, 0),
                                container='array', n_chan=3, remove_mean=rm))
            # list inputs
            lp = [((0, 1, 2), (0, 1, 2), (0, 1, 2), (0, 1, 2)), ((0, 1, 0, 2), (0, 1, 1), (0, 1, 2), (2, 0, 1)),
                  ((0, 1), (0, 1), (0, 1, 2), (1, 2, 0))]
            if tier != 'quick':
                lp += [((0, 1, 2, 1), (0, 1, 2, 2, 0), (2, 1, 0), (0, 2, 1)), ((0, 0, 1), (0, 1, 1), (0, 1, 2), (0, 2, 1))]
            for p1, p2, perm1, perm2 in lp:
                for labkind in (['int', 'str'] if tier != 'quick' else ['str']):
                    out.append(dict(case='list', method=method, pattern=p1, pattern2=p2, labkind=labkind,
                                    perm=perm1[:max(p1) + 1] if max(perm1[:max(p1) + 1]) <= 2 else perm1,
                                    perm2=perm2, container='array',
                                    n_chan=3 if method == 'correlation' else 2, remove_mean=rm))
            # later datasets introduce labels that sort before labels already seen (free label indices)
            for perm1, perm2 in [((0, 2, 3), (1, 0, 3)), ((3, 2, 1), (0, 1, 2))] + ([] if tier == 'quick' else [((2, 3, 0), (1, 3, 2))]):
                for labkind in ['str', 'int']:
                    out.append(dict(case='list', method=method, pattern=(0, 1, 2), pattern2=(0, 1, 2, 1), labkind=labkind,
                                    perm=perm1, perm2=perm2, container='array', freeperm=True,
                                    n_chan=3 if method == 'correlation' else 2, remove_mean=rm))
            out.append(dict(case='list_nodesc', method=method, pattern=(0, 1, 2), labkind='int', perm=(0, 1, 2),
                            container='array', n_chan=3 if method == 'correlation' else 2, remove_mean=rm))
        # movies
        mv = [dict(times=[0, 1], bins=None, n_time=2), dict(times=[0.0, 0.5, 1.0], bins=[[0.0, 0.5], [1.0]], n_time=3)]
        if tier != 'quick':
            # repeated time values are not supported by time_as_observations (raises) -> inadmissible, not enumerated
            mv += [dict(times=[0, 1, 2], bins=[[0], [1, 2]], n_time=3),
                   dict(times=[2, 0, 1], bins=None, n_time=3)]
        for m in mv:
            for pat in ([(0, 1, 0)] if tier == 'quick' else [(0, 1, 0), (1, 0, 2, 1), (0, 1, 2)]):
                out.append(dict(case='movie', method=method, pattern=pat, labkind='str', perm=(1, 0, 2)[:max(pat) + 1]
                                if max(pat) < 2 else (1, 0, 2), container='array',
                                n_chan=3 if method == 'correlation' else 2, **m))
    # fix perms that are not permutations of range(k)
    for c in out:
        if c.get('freeperm'):
            continue
        for key, pk in (('perm', 'pattern'), ('perm2', 'pattern2')):
            if key in c and c[key] is not None:
                k = max(c[pk]) + 1
                p = [x for x in c[key] if x < k]
                if sorted(p) != list(range(k)):
                    p = list(range(k))
                c[key] = tuple(p)
    return out
