#!/bin/bash
# usage: mkwt.sh <dir>   -- scratch worktree of /repo HEAD with the compiled extension copied in
set -e
D="$1"
git -C /repo worktree add --detach "$D" HEAD >/dev/null 2>&1
cp /repo/src/rsatoolbox/cengine/similarity.c /repo/src/rsatoolbox/cengine/similarity.cpython-312-x86_64-linux-gnu.so "$D/src/rsatoolbox/cengine/"
echo "$D"
