#!/bin/bash
# usage: try_seed.sh <name> <prop> [tier]  -- apply seeded patch to /repo, run the check, undo.
# evidence and replay files written by the mutated run are discarded.
N="$1"; P="$2"; T="${3:-quick}"
cd /repo && git diff --quiet || { echo "/repo dirty"; exit 9; }
git -C /repo apply /verif/seeded/$N/patch.diff || { echo "patch does not apply"; exit 9; }
cp /verif/evidence/$P.json /tmp/ev_$P.bak 2>/dev/null
mkdir -p /tmp/replays_bak && rsync -a --delete /verif/replays/ /tmp/replays_bak/
cd /verif && timeout 1500 ./check $P $T > /tmp/try_$N.log 2>&1; RC=$?
git -C /repo checkout -- .
[ -f /tmp/ev_$P.bak ] && mv /tmp/ev_$P.bak /verif/evidence/$P.json
rsync -a --delete /tmp/replays_bak/ /verif/replays/
echo "$N on $P $T: exit=$RC"; grep -E "^(VIOLATION|KNOWN|INCONCLUSIVE|  violation)" /tmp/try_$N.log | head -6; tail -1 /tmp/try_$N.log
