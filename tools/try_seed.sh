#!/bin/bash
# usage: try_seed.sh <name> <prop> [tier]  -- apply seeded patch to /repo, run the check, undo
N="$1"; P="$2"; T="${3:-quick}"
cd /repo && git diff --quiet || { echo "/repo dirty"; exit 9; }
git -C /repo apply /verif/seeded/$N/patch.diff || { echo "patch does not apply"; exit 9; }
cd /verif && ./check $P $T > /tmp/try_$N.log 2>&1; RC=$?
git -C /repo checkout -- . 
echo "$N on $P $T: exit=$RC"; grep -E "^(VIOLATION|KNOWN|INCONCLUSIVE|  violation)" /tmp/try_$N.log | head -8; tail -1 /tmp/try_$N.log
