#!/venv/bin/python
"""prints the sub-agent prompt for seeding a property-breaking change: agent_prompt.py C01 C01a [hint]"""
import json, sys
pid, wt = sys.argv[1], sys.argv[2]
extra = sys.argv[3] if len(sys.argv) > 3 else ''
p = [json.loads(l) for l in open('/verif/properties.jsonl') if json.loads(l)['id'] == pid][0]
print(f"""You are helping to test a verification framework by seeding ONE realistic defect into a Python library.

Work ONLY inside the scratch git worktree /tmp/wt/{wt} (a checkout of rsagroup/rsatoolbox: library source under src/rsatoolbox, tests under tests/). Do NOT read or touch /verif, /repo, or any other directory under /tmp/wt except /tmp/wt/tools and your output directory /tmp/wt/out/{wt}. Run Python as:  PYTHONPATH=/tmp/wt/{wt}/src /venv/bin/python   (no network; nothing can be installed).

PROPERTY "{p['title']}":
{p['statement']}
It is meant to hold: {p['quantifier']['text']}.

TASK: make a small change to the library source (never to tests, never to the compiled .so/.c/.pyx files) that BREAKS this property while
 (a) the package still imports and
 (b) all 340 baseline tests still pass: run  /tmp/wt/tools/run_baseline.py /tmp/wt/{wt} -n 4   (takes 1-2 minutes; it must print "baseline tests passing: 340 / 340" and exit 0; a dozen vis/demo tests fail on the pristine tree too and are ignored), and
 (c) the breakage needs something SPECIFIC to manifest - an unusual input (e.g. unbalanced design, ties, duplicate descriptor values, a size-1 dimension, particular option combination, list-vs-array argument), a multi-step sequence of operations, or two cooperating sites that each look fine alone - not something that ordinary use or the shipped tests would expose at once.
It should look like a plausible refactoring / optimisation / off-by-one mistake that a maintainer could make, not a trapdoor such as "if x == 42". Keep the diff small (typically 1-10 lines). {extra}

DELIVERABLES in /tmp/wt/out/{wt}/ :
 - patch.diff : output of  git -C /tmp/wt/{wt} diff
 - demo.py    : a small standalone program (run with the PYTHONPATH above) that exits 0 on the UNMODIFIED code and fails (AssertionError / non-zero exit) WITH your change. Verify both, e.g. with `git diff > /tmp/wt/out/{wt}/p.diff; git apply -R /tmp/wt/out/{wt}/p.diff; ...; git apply /tmp/wt/out/{wt}/p.diff` in the worktree (NEVER use `git stash`: the stash is shared between all worktrees of the repository). The demo should compare the library's output with an independently computed expected value.
 - meta.json  : {{"property": "{pid}", "summary": ..., "needs_to_manifest": ..., "files_changed": [...], "commands_run": [...]}}
Leave the worktree with your change applied. Be economical: read only the files relevant to the property, do not explore the whole repository. Your final reply should be a 5-line summary (what you changed, what it needs to manifest, test-suite result, demo result).""")
