#!/bin/bash
# usage: confirm_seed.sh <name>   (agent output in /tmp/wt/out/<name>)
# Confirms in a fresh scratch worktree of /repo HEAD: patch applies, package imports, baseline 340/340 with the
# patch, demo fails with the patch and passes without it.  On success copies to /verif/seeded/<name>/.
N="$1"; O=/tmp/wt/out/$N; W=/tmp/wt/confirm_$N
[ -f $O/patch.diff ] || { echo "no patch for $N"; exit 1; }
/verif/tools/rmwt.sh $W >/dev/null 2>&1
/verif/tools/mkwt.sh $W >/dev/null || exit 1
cd $W
export PYTHONPATH=$W/src MPLBACKEND=Agg
/venv/bin/python $O/demo.py >/tmp/wt/out/$N/demo_clean.log 2>&1; CLEAN=$?
git apply $O/patch.diff || { echo "patch does not apply"; /verif/tools/rmwt.sh $W; exit 1; }
/venv/bin/python -c "import rsatoolbox" || { echo "import fails"; /verif/tools/rmwt.sh $W; exit 1; }
/venv/bin/python $O/demo.py >/tmp/wt/out/$N/demo_patched.log 2>&1; PATCHED=$?
/tmp/wt/tools/run_baseline.py $W -n 6 > /tmp/wt/out/$N/baseline.log 2>&1; BASE=$?
cd /; /verif/tools/rmwt.sh $W
echo "$N: demo clean exit=$CLEAN patched exit=$PATCHED baseline exit=$BASE ($(grep 'baseline tests passing' /tmp/wt/out/$N/baseline.log))"
if [ $CLEAN = 0 ] && [ $PATCHED != 0 ] && [ $BASE = 0 ]; then
  mkdir -p /verif/seeded/$N && cp $O/patch.diff $O/demo.py /verif/seeded/$N/
  /venv/bin/python - "$N" <<'P'
import json,sys,os
n=sys.argv[1]; o=f'/tmp/wt/out/{n}'
try: m=json.load(open(o+'/meta.json'))
except Exception: m={}
m['confirmed']={'demo_clean_exit':0,'demo_patched_exit':'nonzero','baseline':'340/340 with patch applied',
 'how':'tools/confirm_seed.sh: fresh scratch worktree of /repo HEAD; demo on clean tree, git apply patch.diff, demo again, tools/run_baseline.py'}
json.dump(m,open(f'/verif/seeded/{n}/meta.json','w'),indent=1)
P
  echo CONFIRMED
else echo REJECTED; fi
