#!/venv/bin/python
"""usage: run_baseline.py <repo_root> [-n JOBS]
Runs the pinned test suite of the rsatoolbox tree at <repo_root> (with its own src on PYTHONPATH)
and compares with /root/.vp/BASELINE.json stable_pass.  Exit 0 iff all 340 baseline tests pass."""
import sys, os, json, subprocess, tempfile, xml.etree.ElementTree as ET
root = os.path.abspath(sys.argv[1])
jobs = sys.argv[3] if len(sys.argv) > 3 and sys.argv[2] == '-n' else '6'
base = json.load(open('/root/.vp/BASELINE.json'))
want = set(base['stable_pass'])
fd, xml = tempfile.mkstemp(suffix='.xml'); os.close(fd)
env = dict(os.environ, PYTHONPATH=os.path.join(root, 'src'), MPLBACKEND='Agg')
for k in list(env):
    if k.endswith('_VERIF'):
        env.pop(k)
cmd = ['/venv/bin/python', '-m', 'pytest', '-q', '-p', 'no:cacheprovider', '--timeout=900',
       '--continue-on-collection-errors', '-n', jobs, '--junitxml=' + xml]
p = subprocess.run(cmd, cwd=root, env=env, stdout=subprocess.PIPE, stderr=subprocess.STDOUT, text=True)
passed = set()
for tc in ET.parse(xml).getroot().iter('testcase'):
    if not any(ch.tag in ('failure', 'error', 'skipped') for ch in tc):
        passed.add(tc.get('classname') + '::' + tc.get('name'))
os.unlink(xml)
missing = sorted(want - passed)
print(p.stdout[-1500:])
print('baseline tests passing: %d / %d' % (len(want & passed), len(want)))
for m in missing:
    print('  NOT PASSING:', m)
sys.exit(0 if not missing else 1)
