#!/venv/bin/python
"""Regenerates /verif/MANIFEST.json from the table below (single source of truth)."""
import json
import os

V = os.path.dirname(os.path.dirname(os.path.abspath(__file__)))
TECH = 'bounded symbolic execution of the real Python source on z3-backed reals; z3 decides each obligation; sat models replayed on the float implementation'

# property -> (design_ref, level text, level note)
CLAIMED = {
    'C01': ('DESIGN.md 4/C01',
            'Every structural configuration within the bound (label patterns as all set partitions of <=4|6 observations '
            'into 2..3|4 conditions, label-value orders and types, list/array descriptors, remove_mean, single/list input, '
            'movies with binning) is executed symbolically through the real calc_rdm code; for each configuration z3 proves '
            'that every output entry equals the textbook formula on the per-label means for ALL real measurement values, '
            'precisions and prior parameters. This is the level tests cannot reach (for-all-values per structure); it is '
            'bounded in size, not a proof for all sizes.',
            'real arithmetic instead of IEEE floats; sizes bounded as stated; integer-dtype inputs outside; numpy proxy/stubs '
            'of the symx engine and z3 are trusted; sat answers are only reported after float replay'),
    'C02': ('DESIGN.md 4/C02',
            'Real calc_rdm_crossnobis / calc_rdm_poisson_cv executed symbolically for every fold-balanced layout in the bound '
            '(2-4 conditions, 2-4 folds, 1-2 repetitions, 1-2 channels, 3|5 row orders, label/fold label types, explicit and default '
            'fold descriptor, no / one / per-fold precision, remove_mean); z3 proves each entry equal to the mean over ordered pairs of '
            'distinct folds of the bilinear form on fold-wise means, for all real values. Row-order, fold-relabel and channel invariance and '
            '"no within-fold products" follow from equality with that order-free oracle.',
            'per-fold precisions only for 2 folds x 2 channels x 2 conditions or <=3 folds x 1 channel (3 folds x 2 channels: z3 unknown); '
            'real arithmetic; np.linalg.inv modelled by fraction-form Gauss-Jordan with non-zero pivots assumed'),
    'C03': ('DESIGN.md 4/C03',
            'Real compare() executed symbolically: cosine/corr (3-4|5 conditions, stacks up to 2x2|3x2, RDMs/ndarray/1-d inputs) and the '
            'whitened measures (sigma_k None, concrete variance vector / diagonal / full SPD matrix with symbolic data, symbolic variance '
            'vector for 3 conditions) are proved equal to their definitions for all real RDM values; V=(C Sigma C\')^2 proved for symbolic '
            'sigma; Spearman, rho-a, Kendall tau-a and tau-b (SciPy\'s own kendalltau run on symbolic values) are explored over every weak '
            'ordering of both 3-entry vectors (169 paths) and compared with tie-exact definitions; symmetry, self-similarity 1, '
            'condition-permutation invariance as identities; |sim|<=1 through a solver-checked Lagrange identity plus abstraction.',
            'Bures measures outside (LAPACK eigh); rank measures only for 3 conditions; zero-norm / constant RDMs excluded by assumption; '
            'scipy cg stubbed by its contract (exact solve); float results on concrete paths compared to 1e-9'),
    'C09': ('DESIGN.md 4/C09',
            'Real bootstrap_sample/_rdm/_pattern executed with every outcome of np.random.randint as an exhaustive choice point '
            '(<=3|4 groups per factor, every grouping pattern, int/str labels, list/array descriptors); on every outcome each sample entry '
            'is proved to be THE source variable of the same RDM and original condition pair (NaN exactly on copy pairs), descriptors '
            'carried, returned indices = drawn groups, model resampling aligned; uniformity by counting over the complete outcome space.',
            'uniformity is relative to the stub contract (randint uniform) and is a finite count, not a solver verdict; sizes bounded'),
    'C10': ('DESIGN.md 4/C10',
            'Every sequence of <=2|3 structural operations (29 operation/argument variants: indexing, iteration, subset/subsample of RDMs '
            'and conditions incl. triple copies, reorder, sort_by alpha/explicit, append, concat in 4 forms, copy, dict round trip, '
            'from_partials, permute/inverse, to_df) is executed on small RDMs objects whose entries are symbolic; after every step the '
            'object is compared with a reference model keyed by unique RDM/condition names: each entry must be THE source variable (for all '
            'values, ties included), NaN exactly on copy/absent pairs, all descriptors carried; receivers of value-returning ops and all '
            'earlier objects must be unaffected by later in-place ops; vector/square forms agree; n recovered from vector length for n<400|3000.',
            'history depth and object sizes bounded (2-3 RDMs x 3-4 conditions); the solver only adds tie/value independence here, the weight '
            'is in the exhaustive bounded history enumeration; slices are not supported by RDMs.__getitem__ (raises) and are excluded'),
    'C14': ('DESIGN.md 4/C14',
            'Real cov_from_residuals/_measurements/_unbalanced and prec_from_* executed symbolically: full and diag estimates proved equal to '
            'the pooled residual cross-product over dof (observations minus conditions or the dof passed) for every labelling of <=4|5 '
            'observations, balanced designs in several row orders, list inputs with per-element dof, more channels than samples; '
            'measurement-based == unbalanced; inputs unmodified; prec@cov == I (symbolic inverse, <=2|3 channels); v\'Sv proved a sum of squares; '
            'Ledoit-Wolf / Schaefer-Strimmer estimates proved equal to lambda*target+(1-lambda)*S with the reference lambda on every branch, '
            'lambda in [0,1] on a solver-checked abstraction.',
            'shrinkage estimators only for residual rank <=2 (rank 3: z3 unknown) and not through cov_from_measurements; precisions of the '
            'two shrinkage estimates and 3x3 symbolic precisions outside (z3 unknown); real arithmetic; branch feasibility answered unknown is explored anyway (sound)'),
    'C11': ('DESIGN.md 4/C11',
            'Every sequence of <=2|3 dataset operations (split/subset by observation, channel, time; sort_by; split+merge; odd-even and '
            'nested splits; per-condition averages; measurement tensor; DataFrame round trip; time binning; time-as-observations/channels; '
            'copy) on Dataset / TemporalDataset objects with symbolic measurements, incl. size-1 observation, channel and time dimensions '
            'and duplicate descriptor values, is compared with a reference model keyed by unique observation/channel/time names: each '
            'entry must be THE source variable, bins and averages the mean of exactly the right variables (solver-decided identities), '
            'splits partition, subsets keep order, sorting is the stable permutation, receivers and sources unaffected.',
            'shapes <=4|5 obs x <=3 channels x <=3 time points; empty selections and repeated time values in time_as_observations are '
            'inadmissible arguments (raise) and excluded; bin_time is exercised without additional time descriptors (it cannot bin them)'),
    'C12': ('DESIGN.md 4/C12',
            'A curated table of 89 public callables of rdm, data, model, inference and util is run on symbolic arguments; on every path '
            'each element of each argument array is proved (z3) to still equal its original variable, so value-dependent writes such as '
            'd[d<0]=0 are found although they never fire on positive fixtures; descriptors are compared with deep copies; results are '
            'checked for independence in both directions by writing fresh variables and applying reorder/sort_by/append. Callables '
            'missing from the table are listed in the evidence (inventory) and are outside the claim.',
            'table is curated, not exhaustive; saving (I/O), rescale (data-dependent loop) and the compiled unbalanced estimator are outside; '
            'zero-norm / constant RDMs excluded by assumption; branches whose feasibility z3 cannot decide (zero-norm pooled RDMs) are not '
            'explored; model classes keeping a reference to the caller\'s RDMs are recorded as known findings'),
    'C17': ('DESIGN.md 4/C17',
            'Real rank_/sqrt_/positive_/minmax_/geotopological_/geodesic_transform and transform() executed symbolically: rank transform over every '
            'weak ordering of 3 entries (all 5 rank methods, NaN positions), sqrt/positive as max(x,0) identities without forking, minmax '
            'and the clipped-linear geo-topological map on every ordering path, descriptor and measure-name propagation; rank measures '
            '(spearman, rho-a, tau-a, tau-b) proved unchanged under symbolic positive affine maps, sqrt and x^3+x on all 169 ordering '
            'paths; cosine under positive scaling and corr under positive affine maps as identities (plain and whitened).',
            'geodesic_transform runs against a small model of the two networkx calls it makes (from_numpy_array: an edge per non-zero entry; floyd_warshall_numpy), 3 conditions, oracle = minimum over explicitly enumerated simple paths; 3 conditions for everything that forks on orderings'),
    'C05': ('DESIGN.md 4/C05',
            'All eight sets_* generators are executed for every grouping pattern of <=5|6 conditions / RDMs (incl. duplicated groups), every k '
            'and group size, ordered and every shuffle outcome (choice points) for <=4 groups: disjoint train/test groups, group integrity, '
            'every group in exactly one test fold, fold sizes within one, returned index lists = object contents, every handed-out RDMs '
            'object contains exactly the advertised entries as THE source variables, ceiling sets = training rdms at test conditions. Leakage: '
            'crossval is run with a recording probe fitter returning fresh symbolic parameters; the fitter provably sees only the training '
            'object, and each fold score is proved equal to an oracle that reads theta and the test set only (non-interference by equality).',
            'bounded sizes; k_fold over both factors only for 3 structures; non-interference is shown for cosine and a weighted-sum model; '
            'fold index arithmetic is executed for every (n,k) in the bound, not proved for symbolic n,k'),
    'C07': ('DESIGN.md 4/C07',
            'Real pool_rdm / boot_noise_ceiling executed symbolically: pooled RDM proved equal to the mean of unit-rms (cosine), standardised '
            'and min-shifted (corr) or tie-averaged rank (rho-a, all 169 ordering paths) data RDMs over non-missing entries; both bounds '
            'proved equal to the mean over left-out groups of sim(pool(rest)|pool(all), left-out data) for singleton and grouped RDMs, so '
            'the prediction for a group provably contains no variable of that group; common missing entries = entry-deleted RDMs; upper-bound '
            'optimality for cosine through linking identities + solver-checked Lagrange identity + abstraction.',
            'optimality chain only for cosine with 2 RDMs x 3 conditions (corr: z3 unknown in most runs, not claimed); lower<=upper, scaling/affine invariance of the upper bound, cv_noise_ceiling '
            '(15 entries) and larger optimality instances came back unknown (nested sqrt atoms) and are NOT claimed; every norm the code '
            'takes a square root of is assumed positive; branches with undecidable feasibility are not explored'),
    'C13': ('DESIGN.md 4/C13',
            'Every comparison measure (cosine, corr, whitened with sigma None/vector, Spearman, rho-a, tau-a, tau-b by forking) on RDMs with a '
            'common NaN mask is proved equal to the reference measure on the entry-deleted vectors (whitened: rows/columns of V deleted before '
            'inversion); masks at different positions - same or different count, between stacks or within one - must raise ValueError; '
            'pooled RDMs of both pooling routines (plain and whitened) and the regression fit equal their entry-deleted counterparts; '
            'RDMs.mean is proved the per-pair NaN-aware mean for no / per-entry / per-RDM weights, NaN only where no RDM has a value.',
            'masks on 4 conditions (4|41 masks); rescale outside (data-dependent iteration count); positive norms assumed'),
    'C08': ('DESIGN.md 4/C08',
            'fit_regress (cosine, corr, cosine_cov, corr_cov; sigma_k none or a concrete variance vector; pattern index selections with '
            'repeats): the returned weights are proved to satisfy the normal equations of the correctly normalised (and whitened) least-squares '
            'problem restricted to the selected conditions with their bootstrap multiplicity, for all real basis and training RDMs; normalised '
            'fits proved proportional with unit norm (cosine); fit_select proved to return an index whose average similarity is >= every '
            'other candidate under the path condition; predict vs predict_rdm agreement, linearity in theta, descriptor carry-over and '
            'dictionary round trip for all four model classes as identities; fit_interpolate with the scalar optimiser replaced by its contract '
            'stub (any point of [0,1]): the objective handed to the optimiser for pair i is proved to be minus the mean similarity of the pair '
            'mixture alone and theta the mixture of the pair with the lowest reported loss.',
            'fit_optimize / fit_optimize_positive (SciPy optimisers) are not encodable and the Brent search inside fit_interpolate is stubbed -> '
            'optimality within a pair and the default fitter of ModelWeighted are outside; fit_regress_nn (active-set loop) did not terminate within the budget symbolically and is outside; '
            'normal equations => optimality is the usual projection argument (Cauchy-Schwarz lemma solver-checked in C03/C07); 2-3 basis RDMs, 3-4|5 conditions'),
    'C04': ('DESIGN.md 4/C04',
            'Real eval_bootstrap_rdm / _pattern / eval_bootstrap run with N=2|3 resamples whose np.random draws are choice points: every '
            'outcome of both resamples for the RDM bootstrap, every outcome of the first resample (second fixed) for the pattern and '
            'two-factor bootstrap; on every outcome each stored evaluation is proved (z3, all real data/model values) equal to the mean '
            'cosine similarity between the prediction restricted to the drawn conditions (with multiplicity, copy pairs missing) and the '
            'resampled data RDMs, NaN exactly for <3 distinct conditions, the stored noise ceilings equal the reference leave-one-group-out '
            'bounds of the SAME resample, dof = resampled groups - 1, covariance = sample covariance across evaluable resamples; the same obligations for bootstrap_crossval with k_pattern=k_rdm=1 '
            '(train = test = the resample; first resample and its fold shuffles exhaustive, every draw accounted for). crossval: '
            'probe fitter sees the training fold only, score = oracle on theta and the test fold, folds with <=2 conditions are NaN.',
            'N<=3, <=3 RDMs x 3|4 conditions, cosine only, fixed models in the bootstrap routines; bootstrap_crossval only with k=1, n_cv=1, no correction; k>1 and the dual '
            'bootstrap are not covered (outcome space too large); seed-reproducibility of NumPy\'s generator is outside (draws are stubbed)'),
    'C06': ('DESIGN.md 4/C06',
            'Real extract_variances (scalar, vector, matrix, 3-stack, with/without ceiling rows, all n_rdm/n_pattern combinations) proved '
            'equal to the contrasts var_i, var_i+var_j-2cov_ij, model-vs-ceiling with the n/(n-1) factor; dual-bootstrap result proved '
            '<= the two-factor variance and >= every corrected single-factor variance that is itself below it; t_tests / t_test_0 / '
            't_test_nc: the statistic handed to the (stubbed, axiomatised) Student-t cdf is proved to be effect/sqrt(max(var,eps)) of the '
            'NaN-aware means, p in [0,1], symmetric with unit diagonal, monotone in the effect at equal variance (from the cdf axioms: range, '
            'monotone, F(x)>=1/2 iff x>=0); permutation equivariance; eval_fixed: evaluations, means, dof=n-1, s^2/n standard errors and the '
            'covariance feeding the paired-t variance; Result.get_means for 2-4 dimensional evaluation arrays.',
            'numerical values of the t distribution are trusted (only its contract is used); Wilcoxon rank-sum and bootstrap percentile '
            'tests outside; dof must be a concrete number'),
    'C18': ('DESIGN.md 4/C18',
            'Real make_dataset / make_signal / make_design executed symbolically: the model RDM is the squared distances of symbolic points '
            '(embeddable by construction), signal and noise are symbolic, np.random.uniform returns fresh reals, norm.ppf is an uninterpreted '
            'atom and scipy.linalg.ldl is the exact unpivoted LDL^T; z3 proves that calc_rdm(euclidean) by condition of the simulated data '
            'equals signal * model RDM (2 conditions x 2-3|5 channels with symbolic draws; 3 conditions x 4 channels for one fixed orthogonal '
            'draw), that data_0 - data_1 = (ppf(e_0)-ppf(e_1))*sqrt(noise)[@chol] under the same-signal option, that descriptors carry the '
            'condition vector and parameters, that the default draws a fresh signal per simulation; make_design checked concretely.',
            'bounded to 2-3 conditions (>=3 conditions with symbolic draws and >=4 conditions: z3 unknown); LDL pivots assumed >= 2e-6; LAPACK '
            'pivoting, signal_cov_channel, noise_cov_trial, n_channel < n_cond and IEEE rounding outside; ldl model and ppf atom are stubs'),
    'C19': ('DESIGN.md 4/C19',
            'Real _get_searchlight_neighbors run with a SYMBOLIC radius on every (sampled|every) centre of small volumes: the comparisons '
            'against the radius fork into the finitely many radius classes and on each path the returned voxel set is compared with '
            '"squared integer distance below the radius" for every voxel of the volume; concrete radii 0.5-2.5 in addition; '
            'get_volume_searchlight on 2x2x2 / 3x2x2 masks with a symbolic threshold: accepted centres and linear-index neighbour lists; '
            'get_searchlight_RDMs with symbolic data: RDM i proved equal to the direct reference RDM of centre i\'s columns (euclidean, '
            'correlation), in centre order, incl. the chunked branch for 1001 centres (thorough); evaluate_models_searchlight order for n_jobs=1.',
            'n_jobs>1 (joblib worker schedules) outside; volumes <=4x4x4; distances use the float sqrt the library uses (stated in the oracle)'),
    'C20': ('DESIGN.md 4/C20',
            'io/bids.py and io/mne.py are re-compiled from the working tree on every run (f-strings and str.join rerouted) and executed on '
            'symbolic strings: every entity value is a z3 String atom constrained to the BIDS label grammar [A-Za-z0-9]+; for all 64 '
            'presence/absence patterns of ses, task, run, space, desc, derivative z3 proves that parsing recovers each entity, that rebuilding '
            'returns the original path, and that find_meta_for / find_events_for / find_table_sibling_of / find_mri_sibling_of change exactly '
            'the requested entities - for ALL values of the grammar, not for sample names; MNE file names likewise. Numeric part: '
            'SpmGlm.spm_filter proved equal to Y - X0(X0\'Y) per run on symbolic data and filter bases; dataset_from_epochs on a mock epochs '
            'object with symbolic data; make_design_matrix: columns, confound flags, dof and the centred range-normalised confound columns '
            'with symbolic confound values (columns with missing values dropped).',
            'POSIX path model (normpath/basename/join) is a stub; file contents (.mat/.json/.fif via scipy.io, json, mne), Meadows file names '
            '(pet-name table, isdigit) are outside; the HRF-convolved condition columns of make_design_matrix are concrete (pchip, numpy.convolve not modelled); find_mri_derivative_files (glob) outside'),
    'C15': ('DESIGN.md 4/C15',
            'cengine/similarity.pyx is transpiled on every run into bounds-checked Python (types stripped, PyMem_Malloc/cvarray -> checked '
            'buffers, dgemv modelled column-major, `/` with C semantics) - the transpiler is validated against the shipped .so - and '
            'replaces the compiled kernel while the real calc_rdm_unbalanced runs symbolically: equality with the symbolic calc_rdm for one '
            'observation per condition (all methods), euclidean/mahalanobis with any repetition counts, crossnobis/poisson_cv on '
            'fold-balanced designs; pair averages per definition for both weightings; labels in order of first appearance; NaN-channel '
            'masks; calc_one_similarity; every buffer access checked. Counterexamples are replayed on the SHIPPED compiled extension.',
            'int vs float input and C/F order only concern ensure_double/memoryview coercion, not exercised by the transpiled code; the three '
            'defects of the compiled kernel found here cannot be repaired without Cython and are open known findings; the out-of-bounds read '
            'is undefined behaviour and reported from the bounds-checked execution (not replayable)'),
}

NA = {
    'C16': 'save/load lives in h5py (HDF5 C library) and pickle: file I/O behind FFI cannot be executed symbolically; '
           'object<->dict conversion alone is not the property (DESIGN.md "Not applicable")',
}
_unused = ('the property is about the compiled Cython kernel similarity.pyx: it can only be reached by transpiling the .pyx to Python '
             '(planned in DESIGN.md); the transpiler was not built in the available time and no Cython is installed to rebuild or '
             'instrument the extension, so the shipped binary cannot be executed symbolically')
PENDING = 'check not yet built in this session (planned, see DESIGN.md section 4)'


def main():
    props = [json.loads(l) for l in open(os.path.join(V, 'properties.jsonl'))]
    checks = []
    for p in props:
        pid = p['id']
        if pid not in CLAIMED:
            continue
        ref, text, note = CLAIMED[pid]
        checks.append(dict(
            property_id=pid, quick_cmd=f'./check {pid} quick', thorough_cmd=f'./check {pid} thorough',
            evidence_file=f'/verif/evidence/{pid}.json', replay_cmd_template=f'./check {pid} --replay {{path}}',
            engine='symx',
            level_claimed=dict(category='other', text=text, design_ref=ref),
            level_note=note, technique=TECH))
    m = dict(
        version=1, setup_cmd='./setup.sh',
        hooks=dict(guard='RSATOOLBOX_VERIF',
                   enable='none needed: the symbolic engine injects its numpy proxy into rsatoolbox modules from outside at check time; no hook code exists in /repo',
                   baseline_off_cmd='cd /repo && /venv/bin/python -m pytest -ra -q -p no:cacheprovider --timeout=900 --continue-on-collection-errors',
                   source_commits=[], add_only=True),
        engines=[dict(name='symx', path='/verif/symx', serves_properties=sorted(CLAIMED),
                      kind_free_text='bounded symbolic execution of the real rsatoolbox Python source on numpy object arrays of '
                                     'z3-backed reals (fraction normal form, sqrt/log atoms, forking on symbolic branches, random draws as '
                                     'exhaustive choice points); SMT (z3 5.1) decides every obligation; sat models are replayed on the float implementation')],
        checks=checks,
        notes='exit codes of ./check: 0 held / 1 violation (replayed) / 2 inconclusive (solver unknown, unsupported operation, '
              'worker death or non-reproducing counterexample). Known findings: /verif/known_findings.json. Seeded changes: /verif/seeded/.',
        not_applicable=[dict(property_id=p['id'], reason=NA.get(p['id'], PENDING)) for p in props if p['id'] not in CLAIMED])
    json.dump(m, open(os.path.join(V, 'MANIFEST.json'), 'w'), indent=1)
    print('claimed:', sorted(CLAIMED), 'n/a:', [x['property_id'] for x in m['not_applicable']])


if __name__ == '__main__':
    main()
