#!/bin/bash
# differential self-check of the engine for every claimed property (see DESIGN.md 2.7)
cd /verif; rc=0
for p in $(python3 -c "import json; print(' '.join(c['property_id'] for c in json.load(open('MANIFEST.json'))['checks']))"); do
  ./check $p selfcheck 2>&1 | grep "^selfcheck" | tail -3 || rc=2
done
exit $rc
