#!/bin/bash
for D in "$@"; do git -C /repo worktree remove --force "$D" 2>/dev/null || rm -rf "$D"; done
git -C /repo worktree prune
