"""symx.driver -- runs a property's harness over all configurations in worker processes,
replays solver counterexamples on the float implementation, applies the known-findings
file, writes evidence and prints VIOLATION / KNOWN-FINDING lines.

exit codes: 0 property held on everything explored (known findings listed);
            1 violation (reproduced on the unmodified float implementation);
            2 inconclusive (unknown / unsupported / worker died / counterexample not reproduced).
"""
import importlib
import json
import os
import sys
import time
import traceback
import tempfile
import shutil
import hashlib
import signal

VERIF = os.path.dirname(os.path.dirname(os.path.abspath(__file__)))
NPROC = int(os.environ.get('VERIF_NPROC', '16'))


def _jsonable(x):
    import numpy as np
    from fractions import Fraction
    if isinstance(x, dict):
        return {str(k): _jsonable(v) for k, v in x.items()}
    if isinstance(x, (list, tuple)):
        return [_jsonable(v) for v in x]
    if isinstance(x, np.ndarray):
        return _jsonable(x.tolist())
    if isinstance(x, (np.integer,)):
        return int(x)
    if isinstance(x, (np.floating,)):
        return float(x)
    if isinstance(x, Fraction):
        return float(x)
    if isinstance(x, float) and x != x:
        return 'nan'
    if isinstance(x, (str, int, float, bool)) or x is None:
        return x
    return repr(x)


class HardTimeout(BaseException):
    pass


def _alarm(signum, frame):
    raise HardTimeout('configuration exceeded its hard wall-clock limit')


class FuncTrace:
    """records which rsatoolbox functions were entered (evidence: 'functions encoded').
    Uses sys.monitoring (PEP 669): every code object reports once and is then disabled, so the cost is negligible
    (sys.setprofile slowed z3-heavy configurations by an order of magnitude)."""
    TOOL = 3

    def __init__(self):
        self.seen = set()

    def start(self):
        mon = sys.monitoring
        try:
            mon.use_tool_id(self.TOOL, 'symx-functrace')
        except ValueError:
            pass
        mon.register_callback(self.TOOL, mon.events.PY_START, self._cb)
        mon.set_events(self.TOOL, mon.events.PY_START)

    def stop(self):
        mon = sys.monitoring
        mon.set_events(self.TOOL, 0)
        mon.register_callback(self.TOOL, mon.events.PY_START, None)
        try:
            mon.restart_events()
        except Exception:
            pass

    def _cb(self, code, offset):
        fn = code.co_filename
        if '/rsatoolbox/' in fn:
            self.seen.add(fn.split('/rsatoolbox/')[-1][:-3].replace('/', '.') + ':' + code.co_name)
        return sys.monitoring.DISABLE


def worker(prop, tier, idxs, outpath, seed):
    """runs configurations idxs; writes one JSON line per configuration"""
    sys.path.insert(0, VERIF)
    import warnings
    warnings.filterwarnings('ignore')
    from symx import run, core
    H = importlib.import_module('harness.' + prop)
    cfgs = H.configs(tier)
    max_paths = getattr(H, 'MAX_PATHS', {}).get(tier, 4000)
    timeout_ms = getattr(H, 'TIMEOUT_MS', {}).get(tier, 30000 if tier == 'quick' else 120000)
    traced_cases = set()
    with open(outpath, 'w') as f:
        for i in idxs:
            cfg = cfgs[i]
            case = H.CASES[cfg['case']]
            t0 = time.time()
            q0, s0 = core.C.stats['queries'], core.C.stats['solver_s']
            tracer = None
            if cfg['case'] not in traced_cases:
                traced_cases.add(cfg['case'])
                tracer = FuncTrace()
                tracer.start()
            budget = getattr(H, 'CFG_BUDGET_S', {}).get(tier, 150 if tier == 'quick' else 900)
            core.C.deadline = time.time() + budget
            core.C.skip_unknown = bool(getattr(H, 'SKIP_UNKNOWN_BRANCHES', False))
            core.C.assume_pos_sqrt = bool(getattr(H, 'ASSUME_SQRT_ARGS_POSITIVE', False))
            core.C.feas_timeout = getattr(H, 'FEAS_TIMEOUT_MS', 10000)
            fu0 = core.C.stats.get('feas_unknown', 0)
            sy0 = core.C.stats.get('syntactic', 0)
            signal.signal(signal.SIGALRM, _alarm)
            signal.alarm(int(budget * 2) + 30)      # hard stop for python-level loops (solver calls stop at the deadline)
            try:
                res = run.run_symbolic(case, cfg, max_paths=max_paths, seed=seed, timeout_ms=timeout_ms)
            except BaseException as e:
                res = dict(paths=0, infeasible=0, obligations=0, discharged=0, unknown=0, failures=[],
                           notes=[], samples=[], unsupported=[f'harness error {type(e).__name__}: {e} '
                                                              + traceback.format_exc()[-600:]])
            finally:
                signal.alarm(0)
                core.C.deadline = None
                if tracer:
                    tracer.stop()
            # replay candidate counterexamples on the unmodified float implementation
            fails = []
            seen_keys = {}
            for fl in res['failures']:
                k = (fl['key'], fl['kind'])
                if seen_keys.get(k, 0) >= 2:
                    # same failure family already has replayed witnesses for this configuration
                    fails.append(dict(fl, replayed=None))
                    continue
                try:
                    if fl.get('exc') == 'OutOfBounds':
                        # undefined behaviour: no float replay can confirm an out-of-bounds read (the brief's
                        # exception to the replay rule); reported on the strength of the bounds-checked execution
                        ok, detail = True, ('out-of-bounds buffer access in the transpiled kernel; undefined behaviour, '
                                            'not replayable on the compiled extension (triaged by reading similarity.pyx)')
                    else:
                        ok, detail = run.replay_failure(case, cfg, fl)
                except BaseException as e:
                    ok, detail = False, f'replay crashed {type(e).__name__}: {e}'
                fl = dict(fl, replayed=bool(ok), replay_detail=str(detail)[:300])
                if ok:
                    seen_keys[k] = seen_keys.get(k, 0) + 1
                fails.append(fl)
            res['failures'] = fails
            res['cfg_index'] = i
            res['cfg'] = cfg
            res['wall_s'] = time.time() - t0
            res['queries'] = core.C.stats['queries'] - q0
            res['solver_s'] = core.C.stats['solver_s'] - s0
            res['functions'] = sorted(tracer.seen) if tracer else []
            res['feas_unknown'] = core.C.stats.get('feas_unknown', 0) - fu0
            res['syntactic'] = core.C.stats.get('syntactic', 0) - sy0
            f.write(json.dumps(_jsonable(res)) + '\n')
            f.flush()
            if os.environ.get('VERIF_PROGRESS') and (res['wall_s'] > 5 or res['unknown'] or res['unsupported']):
                sys.stderr.write(f"[progress] cfg {i} {res['wall_s']:.1f}s unknown={res['unknown']} "
                                 f"unsupported={res['unsupported'][:1]} {json.dumps(_jsonable(cfg))[:300]}\n")
    os._exit(0)


def load_known():
    p = os.path.join(VERIF, 'known_findings.json')
    if not os.path.exists(p):
        return []
    return json.load(open(p)).get('findings', [])


def main(argv):
    prop = argv[1]
    tier = argv[2] if len(argv) > 2 else os.environ.get('VERIF_TIER', 'quick')
    seed = int(os.environ.get('VERIF_SEED', '0') or 0)
    sys.path.insert(0, VERIF)
    t_start = time.time()
    H = importlib.import_module('harness.' + prop)
    if tier == '--replay':
        return replay_main(prop, H, argv[3])
    if tier == 'selfcheck':
        return selfcheck_main(prop, H)
    cfgs = H.configs(tier)
    n = len(cfgs)
    nproc = max(1, min(NPROC, n, getattr(H, 'NPROC', NPROC)))
    tmp = tempfile.mkdtemp(prefix=f'verif_{prop}_')
    pids = {}
    try:
        # longest-first is unknown; interleave so that every worker gets a mix
        for w in range(nproc):
            idxs = list(range(w, n, nproc))
            out = os.path.join(tmp, f'w{w}.jsonl')
            pid = os.fork()
            if pid == 0:
                try:
                    worker(prop, tier, idxs, out, seed)
                finally:
                    os._exit(3)
            pids[pid] = (w, idxs, out)
        died = []
        for pid, (w, idxs, out) in pids.items():
            _, status = os.waitpid(pid, 0)
            if status != 0:
                died.append((w, status))
        results = {}
        for pid, (w, idxs, out) in pids.items():
            if os.path.exists(out):
                for line in open(out):
                    try:
                        r = json.loads(line)
                    except Exception:
                        continue
                    results[r['cfg_index']] = r
    finally:
        shutil.rmtree(tmp, ignore_errors=True)
    return report(prop, tier, seed, H, cfgs, results, died, time.time() - t_start)


def report(prop, tier, seed, H, cfgs, results, died, wall):
    known = [k for k in load_known() if k.get('property') == prop and k.get('status', 'open') == 'open']
    missing = [i for i in range(len(cfgs)) if i not in results]
    tot = dict(paths=0, infeasible=0, obligations=0, discharged=0, unknown=0, queries=0, solver_s=0.0, feas_unknown=0, syntactic=0)
    unsupported = []
    violations = {}      # key -> first failure
    known_hits = {}
    unreproduced = []
    functions = set()
    samples = []
    per_case = {}
    for i, r in sorted(results.items()):
        for k in tot:
            tot[k] += r.get(k, 0)
        functions.update(r.get('functions', []))
        pc = per_case.setdefault(r['cfg']['case'], dict(configs=0, paths=0, obligations=0, discharged=0))
        pc['configs'] += 1
        pc['paths'] += r['paths']
        pc['obligations'] += r['obligations']
        pc['discharged'] += r['discharged']
        if r['unsupported']:
            unsupported.append((i, r['unsupported'][0]))
        if len(samples) < 6 and r.get('samples'):
            samples.append(dict(config=r['cfg'], obligation=r['samples'][0]))
        for fl in r['failures']:
            if fl.get('replayed') is None:
                continue
            if not fl['replayed']:
                unreproduced.append((i, fl))
                continue
            kk = fl['key']
            hit = [k for k in known if kk == k['key'] or kk.startswith(k['key'] + ':')]
            if hit:
                known_hits.setdefault(hit[0]['key'], (hit[0], i, fl))
            else:
                violations.setdefault(kk, (i, fl))
    inconclusive = bool(missing or died or unsupported or tot['unknown'] or unreproduced)
    os.makedirs(os.path.join(VERIF, 'replays'), exist_ok=True)
    for key, (k, i, fl) in sorted(known_hits.items()):
        print(f"KNOWN-FINDING: property={prop} {k['key']} -- {k['what']}")
    vio_lines = []
    for kk, (i, fl) in sorted(violations.items()):
        h = hashlib.sha1((prop + kk).encode()).hexdigest()[:8]
        path = os.path.join(VERIF, 'replays', f'{prop}-{h}.json')
        json.dump(_jsonable(dict(property=prop, tier=tier, cfg=cfgs[i], failure=fl)), open(path, 'w'), indent=1)
        vio_lines.append(f'VIOLATION property={prop} replay={path}')
        print(f"  violation key={kk} cfg={json.dumps(_jsonable(cfgs[i]))[:300]}\n    {fl['label']}: {fl['detail'][:300]}\n    replay: {fl.get('replay_detail','')[:200]}")
    for l in vio_lines:
        print(l)
    if unsupported:
        print(f'INCONCLUSIVE: {len(unsupported)} configurations hit unsupported operations, e.g. cfg {unsupported[0][0]}: {unsupported[0][1][:400]}')
    if unreproduced:
        i, fl = unreproduced[0]
        print(f"INCONCLUSIVE: {len(unreproduced)} solver counterexamples did not reproduce on the float implementation "
              f"(encoding problem), e.g. cfg {i} {json.dumps(_jsonable(cfgs[i]))[:200]} {fl['label']}: {fl['detail'][:200]} / {fl.get('replay_detail','')[:200]}")
    if tot['unknown']:
        print(f"INCONCLUSIVE: {tot['unknown']} obligations answered unknown by the solver")
    if missing or died:
        print(f'INCONCLUSIVE: workers died {died}; {len(missing)} configurations without result')
    nontrivial = sum(1 for r in results.values() if r['obligations'] > 0 and r['paths'] > 0)
    # vacuity guard: every configuration must have produced obligations
    vacuous = [i for i, r in results.items() if r['obligations'] == 0 and not r['unsupported']]
    if vacuous:
        print(f'INCONCLUSIVE: {len(vacuous)} configurations produced no obligation (vacuous), e.g. {json.dumps(_jsonable(cfgs[vacuous[0]]))[:200]}')
        inconclusive = True
    ev = dict(
        property_id=prop, tier=tier, seed=seed, level='other',
        coverage=dict(
            explanation=getattr(H, 'EXPLANATION', '') or (
                'Bounded symbolic execution of the real rsatoolbox source (imported from /repo/src at check time) on '
                'numpy object arrays of z3-backed reals; every obligation is decided by z3 for all real input values '
                'within the enumerated structure bounds; sat models are replayed on the float implementation.'),
            evaluations=len(results), distinct_nontrivial=nontrivial,
            rule='one evaluation = one structural configuration (shape, label pattern, options) executed symbolically '
                 'on every feasible path; non-trivial = produced at least one solver obligation',
            configurations=len(cfgs), paths=tot['paths'], paths_outside_domain=tot['infeasible'],
            obligations=tot['obligations'], discharged=tot['discharged'], solver_unknown=tot['unknown'],
            queries=tot['queries'], solver_s=round(tot['solver_s'], 2),
            obligations_discharged_without_query=tot['syntactic'],
            obligations_note=('value obligations whose two sides are the syntactically identical z3 term (pure data movement) are '
                              'discharged without a solver call; structural obligations (labels, index sets, shapes) are concrete '
                              'comparisons; all others are z3 queries'),
            branch_feasibility_unknown=tot['feas_unknown'],
            branch_policy=('branches whose feasibility z3 cannot decide are NOT explored (counted above)'
                           if getattr(H, 'SKIP_UNKNOWN_BRANCHES', False) else
                           'branches whose feasibility z3 cannot decide are explored anyway (sound: obligations on an infeasible path hold vacuously)'),
            counterexamples_replayed=sum(1 for r in results.values() for f in r['failures'] if f.get('replayed') is not None),
            counterexamples_not_reproduced=len(unreproduced),
            known_findings_hit=sorted(known_hits), per_case=per_case,
            functions_encoded=sorted(functions), bounds=getattr(H, 'BOUNDS', {}).get(tier, ''),
            outside=getattr(H, 'OUTSIDE', ''), samples=samples or ['(none)'],
            exhaustive=False, checker_cmd=f'./check {prop} {tier}',
            trusted_base=['z3 5.1.0', 'symx engine (/verif/symx) incl. numpy proxy and scipy stubs', 'numpy object-array dispatch'],
        ),
        assumptions=getattr(H, 'ASSUMPTIONS', []) + [
            'floats modelled as exact reals; rounding outside the claim',
            'symbolic inputs are finite reals; NaN only at enumerated positions',
            'denominators the code divides by are non-zero (recorded per path)'],
        wall_s=round(wall, 2), violations=len(violations))
    os.makedirs(os.path.join(VERIF, 'evidence'), exist_ok=True)
    json.dump(ev, open(os.path.join(VERIF, 'evidence', f'{prop}.json'), 'w'), indent=1)
    print(f"{prop} {tier}: configs={len(cfgs)} paths={tot['paths']} obligations={tot['obligations']} "
          f"discharged={tot['discharged']} unknown={tot['unknown']} queries={tot['queries']} "
          f"solver_s={tot['solver_s']:.1f} known={len(known_hits)} violations={len(violations)} wall={wall:.1f}s")
    if violations:
        return 1
    if inconclusive:
        return 2
    return 0


def selfcheck_main(prop, H):
    """differential self-check of the engine (DESIGN 2.7): every case is run once with CONSTANT inputs through the
    symbolic machinery (proxy, stubs, models) and once on the unmodified float path; the values of all obligations'
    left-hand sides must agree.  Validates the numpy proxy / scipy stubs / transpilers, not the repository."""
    import warnings
    warnings.filterwarnings('ignore')
    from symx import run, core
    cfgs = H.configs('quick')
    per_case = {}
    for c in cfgs:
        per_case.setdefault(c['case'], [])
        if len(per_case[c['case']]) < int(os.environ.get('VERIF_SELFCHECK_N', '6')):
            per_case[c['case']].append(c)
    bad = 0
    n = 0
    for case_name, lst in per_case.items():
        for cfg in lst:
            core.C.assume_pos_sqrt = bool(getattr(H, 'ASSUME_SQRT_ARGS_POSITIVE', False))
            core.C.skip_unknown = True
            core.C.deadline = time.time() + 60
            try:
                rs = run.run_symbolic(H.CASES[case_name], cfg, max_paths=1, consts=True, seed=7, timeout_ms=5000)
            except BaseException as e:
                print(f'selfcheck {prop}:{case_name}: symbolic-constant run failed: {type(e).__name__}: {e}')
                bad += 1
                continue
            finally:
                core.C.deadline = None
            vals = None
            try:
                t, status, exc = run.run_concrete(H.CASES[case_name], cfg, values=None, choices=[0] * 64, seed=7)
            except core.Infeasible:
                continue        # the random constants fall outside the assumed input domain of this case
            sym = dict(rs.get('records', []))
            con = dict(t.records)
            common = [k for k in sym if k in con]
            n += len(common)
            for k in common:
                if not run._feq(float(sym[k]) if sym[k] is not None else float('nan'), float(con[k]), 1e-6):
                    bad += 1
                    print(f'selfcheck {prop}:{case_name} {json.dumps(_jsonable(cfg))[:120]}: {k}: engine {sym[k]} vs float {con[k]}')
                    break
    print(f'selfcheck {prop}: {n} values compared over {sum(len(v) for v in per_case.values())} configurations, {bad} disagreements')
    return 0 if bad == 0 else 2


def replay_main(prop, H, path):
    sys.path.insert(0, VERIF)
    from symx import run
    d = json.load(open(path))
    cfg = d['cfg']
    # tuples became lists in json; harnesses accept both
    ok, detail = run.replay_failure(H.CASES[cfg['case']], cfg, d['failure'])
    print(('REPRODUCED: ' if ok else 'not reproduced: ') + str(detail))
    if ok:
        print(f'VIOLATION property={prop} replay={path}')
    return 1 if ok else 0


if __name__ == '__main__':
    sys.exit(main(sys.argv))
