"""symx.proxy -- injection of a numpy proxy (and scipy stubs) into rsatoolbox modules.

``install()`` replaces, in every loaded ``rsatoolbox.*`` module, the global ``np`` /
``numpy`` by ``NpProxy`` and names imported by value (squareform, rankdata, ...) by
models.  ``uninstall()`` restores them.  No file under /repo is touched.
"""
import sys
import math
from fractions import Fraction

import numpy as real_np

from . import arrays as A
from .arrays import SymArray, wrap, normalise, has_sym, is_obj
from .core import R, B, NAN, ZERO, ONE, Unsupported, choose, C, fresh_real, ite
from . import core

_FLOAT_CREATORS = {'zeros', 'ones', 'empty', 'eye', 'identity', 'full', 'zeros_like',
                   'ones_like', 'empty_like', 'full_like', 'linspace'}
_FLOAT_DT = (real_np.float64, real_np.float32)


def _any_sym(args, kw=None):
    for a in args:
        if isinstance(a, (R, B)) or (isinstance(a, real_np.ndarray) and a.dtype == object) or \
                (isinstance(a, (list, tuple)) and has_sym(a)):
            return True
    if kw:
        return _any_sym(list(kw.values()))
    return False


class LinalgProxy:
    def inv(self, a):
        a = real_np.asarray(a)
        return A.inv(a) if a.dtype == object else real_np.linalg.inv(a)

    def solve(self, a, b):
        a = real_np.asarray(a)
        b = real_np.asarray(b)
        if a.dtype == object or b.dtype == object:
            return A.solve(a, b)
        return real_np.linalg.solve(a, b)

    def det(self, a):
        a = real_np.asarray(a)
        return A.det(a) if a.dtype == object else real_np.linalg.det(a)

    def norm(self, x, ord=None, axis=None, **kw):
        x = real_np.asarray(x)
        if x.dtype != object:
            return real_np.linalg.norm(x, ord=ord, axis=axis, **kw)
        if ord not in (None, 2, 'fro'):
            raise Unsupported('norm ord')
        s = real_np.add.reduce((x * x), axis=axis)
        return real_np.sqrt(wrap(real_np.asarray(s, dtype=object))) if real_np.ndim(s) else R.lift(s).sqrt()

    def __getattr__(self, name):
        f = getattr(real_np.linalg, name)

        def g(*a, **k):
            if _any_sym(a, k):
                raise Unsupported(f'np.linalg.{name} on symbolic data')
            return f(*a, **k)
        return g


class RandomProxy:
    """every integer-valued draw is a choice point explored exhaustively; real-valued
    draws are fresh symbolic reals in range (DESIGN 2.3)"""

    def randint(self, low, high=None, size=None, dtype=int):
        if high is None:
            low, high = 0, low
        low, high = int(low), int(high)
        if size is None:
            return low + choose(high - low)
        shape = (size,) if isinstance(size, (int, real_np.integer)) else tuple(size)
        n = int(real_np.prod(shape))
        vals = [low + choose(high - low) for _ in range(n)]
        return real_np.array(vals, dtype=int).reshape(shape)

    def permutation(self, x):
        if isinstance(x, (int, real_np.integer)):
            items = list(range(int(x)))
        else:
            items = list(x)
        out = []
        pool = list(items)
        while pool:
            out.append(pool.pop(choose(len(pool))))
        r = real_np.array(out)
        return r

    def shuffle(self, x):
        n = len(x)
        perm = self.permutation(n)
        if isinstance(x, real_np.ndarray):
            x[...] = x[perm]
        else:
            x[:] = [x[i] for i in perm]

    def choice(self, a, size=None, replace=True, p=None):
        if p is not None:
            raise Unsupported('random.choice with p')
        items = list(range(a)) if isinstance(a, (int, real_np.integer)) else list(a)
        if size is None:
            return items[choose(len(items))]
        n = int(real_np.prod(size))
        if replace:
            out = [items[choose(len(items))] for _ in range(n)]
        else:
            pool = list(items)
            out = [pool.pop(choose(len(pool))) for _ in range(n)]
        return real_np.array(out).reshape(size)

    def rand(self, *shape):
        return self._fresh(shape, 0, 1)

    def random(self, size=None):
        return self._fresh(() if size is None else ((size,) if isinstance(size, int) else tuple(size)), 0, 1)

    def uniform(self, low=0.0, high=1.0, size=None):
        return self._fresh(() if size is None else ((size,) if isinstance(size, int) else tuple(size)), low, high)

    def randn(self, *shape):
        return self._fresh(shape, None, None)

    def normal(self, loc=0.0, scale=1.0, size=None):
        z = self._fresh(() if size is None else ((size,) if isinstance(size, int) else tuple(size)), None, None)
        return z * scale + loc

    def _fresh(self, shape, lo, hi):
        import z3
        out = real_np.empty(shape, dtype=object)
        for idx in real_np.ndindex(*shape) if shape else [()]:
            sh = C.rng.uniform(0.1, 0.9) if lo is not None else C.rng.uniform(-1, 1)
            if lo is not None:
                sh = float(lo) + sh * (float(hi) - float(lo))
            v = fresh_real('rnd', sh)
            if lo is not None:
                C.assume.append(z3.And(v.n >= R.lift(lo).t, v.n <= R.lift(hi).t))
            out[idx] = v
        return out.view(SymArray) if shape else out[()]

    def seed(self, *a, **k):
        return None

    def __getattr__(self, name):
        raise Unsupported('np.random.' + name)


class _NdMeta(type):
    def __instancecheck__(cls, inst):
        return isinstance(inst, real_np.ndarray)

    def __subclasscheck__(cls, sub):
        return issubclass(sub, real_np.ndarray)

    def __call__(cls, shape, dtype=float, **k):
        r = real_np.zeros(shape, dtype=dtype)
        return wrap(r) if r.dtype in _FLOAT_DT else r


class NdProxy(metaclass=_NdMeta):
    pass


def _nanfun(name):
    def f(a, axis=None, **kw):
        a = real_np.asarray(a)
        if a.dtype != object:
            return getattr(real_np, name)(a, axis=axis, **kw)
        keepdims = kw.pop('keepdims', False)
        if kw:
            raise Unsupported(f'{name} options {list(kw)}')
        mask = A._isnan(a)
        if axis is None:
            vals = [v for v, m in zip(a.flat, mask.flat) if not m]
            r = _agg(name, vals)
            if keepdims:
                out = real_np.empty((1,) * a.ndim, dtype=object)
                out[...] = r
                return out.view(SymArray)
            return r
        moved = real_np.moveaxis(a, axis, 0)
        mm = real_np.moveaxis(mask, axis, 0)
        out = real_np.empty(moved.shape[1:], dtype=object)
        for idx in real_np.ndindex(*out.shape):
            vals = [moved[(k,) + idx] for k in range(moved.shape[0]) if not mm[(k,) + idx]]
            out[idx] = _agg(name, vals)
        out = out.view(SymArray)
        if keepdims:
            out = real_np.expand_dims(out, axis)
        return out
    return f


def _agg(name, vals):
    import functools
    if name == 'nansum':
        tot = ZERO
        for v in vals:
            tot = tot + v
        return tot
    if name == 'nanmean':
        if not vals:
            return NAN
        tot = ZERO
        for v in vals:
            tot = tot + v
        return tot * R.const(Fraction(1, len(vals)))
    if name == 'nanmax':
        if not vals:
            return NAN
        return functools.reduce(A._max2, vals)
    if name == 'nanmin':
        if not vals:
            return NAN
        return functools.reduce(A._min2, vals)
    if name == 'nanvar':
        if not vals:
            return NAN
        m = _agg('nanmean', vals)
        tot = ZERO
        for v in vals:
            tot = tot + (v - m) * (v - m)
        return tot * R.const(Fraction(1, len(vals)))
    raise Unsupported(name)


class NpProxy:
    """stands in for the numpy module inside rsatoolbox modules"""
    ndarray = NdProxy

    def __init__(self):
        self.linalg = LinalgProxy()
        self.random = RandomProxy()
        self._cache = {}

    def __getattr__(self, name):
        try:
            return self._cache[name]
        except KeyError:
            pass
        attr = self._make(name)
        self._cache[name] = attr
        return attr

    def _make(self, name):
        attr = getattr(real_np, name)
        if name in _FLOAT_CREATORS:
            def creator(*a, **k):
                if name in ('full', 'full_like') and _any_sym(a, k):
                    if name == 'full':
                        shape, val = a[0], a[1] if len(a) > 1 else k['fill_value']
                        r = real_np.empty(shape, dtype=object)
                        r.fill(val if isinstance(val, (R, B)) else R.lift(val))
                        return r.view(SymArray)
                    raise Unsupported('full_like with symbolic value')
                if name.endswith('_like') and isinstance(a[0], real_np.ndarray) and a[0].dtype == object \
                        and 'dtype' not in k:
                    base = real_np.zeros(a[0].shape) if isinstance(a[0], real_np.ndarray) else real_np.zeros_like(a[0])
                    if name == 'ones_like':
                        base = base + 1
                    if name == 'full_like':
                        base = base + (a[1] if len(a) > 1 else k['fill_value'])
                    return wrap(base)
                r = attr(*a, **k)
                if name.endswith('_like'):
                    # prototype is a concrete (non-object) array: metadata, stays concrete
                    return r
                if isinstance(r, real_np.ndarray) and r.dtype in _FLOAT_DT:
                    if name in ('empty', 'empty_like'):
                        r = real_np.zeros(r.shape)
                    return wrap(r)
                return r
            return creator
        if name in ('isnan', 'isfinite', 'isinf'):
            return A.UFUNCS[name]
        if name in ('nansum', 'nanmean', 'nanmax', 'nanmin', 'nanvar'):
            return _nanfun(name)
        special = {
            'cov': lambda *a, **k: A.cov(*a, **k) if _any_sym(a, k) else real_np.cov(*a, **k),
            'quantile': lambda a, q, **k: A.quantile(a, q, **k) if _any_sym((a,)) else real_np.quantile(a, q, **k),
            'argsort': lambda a, axis=-1, **k: A.argsort(a, axis=axis) if _any_sym((a,)) else real_np.argsort(a, axis=axis, **k),
            'sort': lambda a, axis=-1, **k: A.sort(a, axis=axis) if _any_sym((a,)) else real_np.sort(a, axis=axis, **k),
            'argmax': lambda a, axis=None, **k: A.argmax(a, axis=axis) if _any_sym((a,)) else real_np.argmax(a, axis=axis, **k),
            'argmin': lambda a, axis=None, **k: A.argmax(-wrap(real_np.asarray(a)), axis=axis) if _any_sym((a,)) else real_np.argmin(a, axis=axis, **k),
            'max': lambda a, axis=None, **k: A._reduce('maximum', a, axis=axis, **k) if _any_sym((a,)) else real_np.max(a, axis=axis, **k),
            'min': lambda a, axis=None, **k: A._reduce('minimum', a, axis=axis, **k) if _any_sym((a,)) else real_np.min(a, axis=axis, **k),
            'amax': lambda a, axis=None, **k: A._reduce('maximum', a, axis=axis, **k) if _any_sym((a,)) else real_np.max(a, axis=axis, **k),
            'amin': lambda a, axis=None, **k: A._reduce('minimum', a, axis=axis, **k) if _any_sym((a,)) else real_np.min(a, axis=axis, **k),
            'all': lambda a, axis=None, **k: A._reduce('logical_and', a, axis=axis, **k) if _any_sym((a,)) else real_np.all(a, axis=axis, **k),
            'any': lambda a, axis=None, **k: A._reduce('logical_or', a, axis=axis, **k) if _any_sym((a,)) else real_np.any(a, axis=axis, **k),
            'clip': self._clip,
            'where': self._where,
            'allclose': self._allclose,
            'isclose': self._isclose,
            'mean': self._mean,
            'average': self._average,
            'var': lambda a, axis=None, ddof=0, **k: wrap(real_np.asarray(a)).var(axis=axis, ddof=ddof, **k) if _any_sym((a,)) else real_np.var(a, axis=axis, ddof=ddof, **k),
            'std': lambda a, axis=None, ddof=0, **k: wrap(real_np.asarray(a)).std(axis=axis, ddof=ddof, **k) if _any_sym((a,)) else real_np.std(a, axis=axis, ddof=ddof, **k),
            'fill_diagonal': self._fill_diagonal,
            'array_equal': self._array_equal,
            'nan_to_num': self._nan_to_num,
            'ceil': self._no_sym('ceil'),
            'floor': self._no_sym('floor'),
            'round': self._no_sym('round'),
            'unique': self._no_sym('unique'),
            'corrcoef': self._no_sym('corrcoef'),
            'histogram': self._no_sym('histogram'),
            'percentile': self._no_sym('percentile'),
            'median': self._no_sym('median'),
            'searchsorted': self._no_sym('searchsorted'),
            'count_nonzero': self._count_nonzero,
            'sqrt': self._sqrt,
            'float64': _Float64,
            'double': _Float64,
        }
        if name in special:
            return special[name]
        if isinstance(attr, real_np.ufunc):
            if name in A.UFUNCS:
                model = A.UFUNCS[name]

                def uf(*a, **k):
                    # scalar R / B operands never reach SymArray.__array_ufunc__; route them to the same models
                    if not k and any(isinstance(x, (R, B)) for x in a):
                        return model(*a)
                    return attr(*a, **k)
                for nm in ('reduce', 'outer', 'at', 'accumulate', 'reduceat'):
                    setattr(uf, nm, getattr(attr, nm))
                uf.__name__ = name
                return uf
            return attr
        if callable(attr) and not isinstance(attr, type):
            def f(*a, **k):
                if k.get('dtype') in (float, real_np.float64) and _any_sym(a):
                    k = dict(k)
                    k.pop('dtype')
                r = attr(*a, **k)
                return normalise(r)
            f.__name__ = name
            return f
        return attr

    # --- helpers
    def _sqrt(self, x, *a, **k):
        # exact square roots of concrete scalars (np.sqrt(2) would contaminate identities by 1e-16)
        if isinstance(x, (int, float, real_np.integer, real_np.floating)) and not a and not k:
            xf = core._to_fraction(x) if x == x and abs(x) != math.inf else None
            if xf is not None and xf >= 0:
                r = core._isqrt_frac(xf)
                if r is not None:
                    return real_np.float64(float(r))
                return R.const(xf).sqrt()
        return real_np.sqrt(x, *a, **k)

    def _no_sym(self, name):
        f = getattr(real_np, name)

        def g(*a, **k):
            if _any_sym(a, k):
                # constants only -> evaluate concretely and lift back
                try:
                    ca = [_to_float(x) for x in a]
                except Unsupported:
                    raise Unsupported(f'np.{name} on symbolic data')
                r = f(*ca, **k)
                return r
            return f(*a, **k)
        return g

    def _count_nonzero(self, a, axis=None, **k):
        if _any_sym((a,)):
            a = real_np.asarray(a)
            bools = A.force_bool_array(a != 0) if not A.is_symbool(a) else A.force_bool_array(a)
            return real_np.count_nonzero(bools, axis=axis, **k)
        return real_np.count_nonzero(a, axis=axis, **k)

    def _mean(self, a, axis=None, **k):
        if _any_sym((a,)):
            k.pop('dtype', None)
            return wrap(real_np.asarray(a)).mean(axis=axis, **k)
        return real_np.mean(a, axis=axis, **k)

    def _average(self, a, axis=None, weights=None, **k):
        if _any_sym((a, weights)):
            if weights is None:
                return self._mean(a, axis=axis)
            a = wrap(real_np.asarray(a))
            w = wrap(real_np.asarray(weights))
            if w.shape != a.shape:
                if axis is None or w.ndim != 1:
                    raise Unsupported('average weights shape')
                shape = [1] * a.ndim
                shape[axis] = -1
                w = w.reshape(shape)
            num = real_np.add.reduce((a * w).view(real_np.ndarray), axis=axis)
            den = real_np.add.reduce(real_np.broadcast_to(w, a.shape).view(real_np.ndarray), axis=axis)
            return normalise(num / den) if isinstance(num, real_np.ndarray) else num / den
        return real_np.average(a, axis=axis, weights=weights, **k)

    def _clip(self, a, a_min=None, a_max=None, **k):
        if _any_sym((a, a_min, a_max)):
            r = wrap(real_np.asarray(a))
            if a_min is not None:
                r = A._maximum(r, a_min)
            if a_max is not None:
                r = A._minimum(r, a_max)
            return r
        return real_np.clip(a, a_min, a_max, **k)

    def _where(self, cond, *xy):
        if not xy:
            if A.is_symbool(real_np.asarray(cond)):
                cond = A.force_bool_array(cond)
            return real_np.where(cond)
        x, y = xy
        if isinstance(cond, B) or A.is_symbool(real_np.asarray(cond)):
            return A._elem(lambda c, u, v: ite(c, u, v), cond, x, y)
        r = real_np.where(cond, _objify(x), _objify(y)) if _any_sym((x, y)) else real_np.where(cond, x, y)
        return normalise(r)

    def _isclose(self, a, b, rtol=1e-05, atol=1e-08, **k):
        if _any_sym((a, b)):
            a = wrap(real_np.asarray(a))
            b = wrap(real_np.asarray(b))
            return A.UFUNCS['less_equal'](A._abs(a - b), atol + rtol * A._abs(b))
        return real_np.isclose(a, b, rtol=rtol, atol=atol, **k)

    def _allclose(self, a, b, rtol=1e-05, atol=1e-08, **k):
        if _any_sym((a, b)):
            return A._reduce('logical_and', self._isclose(a, b, rtol, atol))
        return real_np.allclose(a, b, rtol=rtol, atol=atol, **k)

    def _array_equal(self, a, b, **k):
        if _any_sym((a, b)):
            a = real_np.asarray(a)
            b = real_np.asarray(b)
            if a.shape != b.shape:
                return False
            return A._reduce('logical_and', A.UFUNCS['equal'](a, b))
        return real_np.array_equal(a, b, **k)

    def _fill_diagonal(self, a, val, wrap_=False):
        if isinstance(a, real_np.ndarray) and a.dtype == object:
            v = R.lift(val) if not isinstance(val, (R, B)) else val
            n = min(a.shape)
            for i in range(n):
                a[(i,) * a.ndim] = v
            return None
        return real_np.fill_diagonal(a, val)

    def _nan_to_num(self, a, nan=0.0, **k):
        if _any_sym((a,)):
            a = wrap(real_np.asarray(a)).copy()
            m = A._isnan(a)
            a[m] = R.lift(nan)
            return a
        return real_np.nan_to_num(a, nan=nan, **k)


class _Float64Meta(type):
    def __instancecheck__(cls, inst):
        return isinstance(inst, real_np.float64)


class _Float64(metaclass=_Float64Meta):
    def __new__(cls, x=0.0):
        if isinstance(x, R):
            return x
        return real_np.float64(x)


def _objify(x):
    if isinstance(x, real_np.ndarray) and x.dtype != object:
        return wrap(x)
    if isinstance(x, (int, float)):
        return R.lift(x)
    return x


def _to_float(x):
    if isinstance(x, R):
        return float(x)
    if isinstance(x, real_np.ndarray) and x.dtype == object:
        out = real_np.empty(x.shape)
        for idx in real_np.ndindex(*x.shape):
            out[idx] = float(x[idx])
        return out
    return x


# ------------------------------------------------------------------ scipy stubs

class TDistStub:
    """scipy.stats.t: cdf/sf as uninterpreted atoms F_dof with shadow = real value.
    Axioms (range, monotonicity, symmetry) are instantiated by symx.axioms."""

    @staticmethod
    def _dofkey(df):
        df = R.lift(df) if not isinstance(df, R) else df
        if df.is_const:
            return str(df.c), float(df.c)
        raise Unsupported('symbolic degrees of freedom in t.cdf')

    def cdf(self, x, df, *a, **k):
        from scipy.stats import t as real_t
        if not _any_sym((x, df)):
            return real_t.cdf(x, df, *a, **k)
        return self._apply('tcdf', x, df, lambda v, d: float(real_t.cdf(v, d)))

    def sf(self, x, df, *a, **k):
        from scipy.stats import t as real_t
        if not _any_sym((x, df)):
            return real_t.sf(x, df, *a, **k)
        c = self._apply('tcdf', x, df, lambda v, d: float(real_t.cdf(v, d)))
        return 1 - c

    def _apply(self, kind, x, df, shf):
        x = real_np.asarray(x, dtype=object) if not isinstance(x, R) else x
        dfa = real_np.asarray(df, dtype=object) if not isinstance(df, R) else df

        def one(v, d):
            v = R.lift(v)
            if v.tag == 'nan':
                return NAN
            key, dval = self._dofkey(d)
            kname = f'{kind}_{key}'
            if kname not in core._SH_FUN:
                core.register_atom_kind(kname, lambda s, dval=dval: shf(s, dval))
            if v.tag == 'inf':
                return ONE
            if v.tag == '-inf':
                return ZERO
            if v.is_const and v.c == 0:
                return R.const(Fraction(1, 2))       # symmetry of the t distribution
            return core.make_atom(kname, v)
        if isinstance(x, R) and isinstance(dfa, R):
            return one(x, dfa)
        return A._elem(one, x, dfa)

    def ppf(self, q, df, *a, **k):
        from scipy.stats import t as real_t
        if not _any_sym((q, df)):
            return real_t.ppf(q, df, *a, **k)
        raise Unsupported('t.ppf on symbolic data')

    def __getattr__(self, name):
        from scipy.stats import t as real_t
        return getattr(real_t, name)


def cdist_model(XA, XB, metric='euclidean', **kw):
    from scipy.spatial.distance import cdist
    if not _any_sym((XA, XB)):
        return cdist(XA, XB, metric, **kw)
    if metric not in ('euclidean', 'sqeuclidean'):
        raise Unsupported('cdist metric')
    XA = wrap(real_np.asarray(XA))
    XB = wrap(real_np.asarray(XB))
    d = XA[:, None, :] - XB[None, :, :]
    s = wrap(real_np.add.reduce((d * d).view(real_np.ndarray), axis=2))
    return s if metric == 'sqeuclidean' else real_np.sqrt(s)


class _Tqdm:
    @staticmethod
    def trange(n, *a, **k):
        return range(n)

    @staticmethod
    def tqdm(it, *a, **k):
        return it

    def __call__(self, it, *a, **k):
        return it


def _cg_model(V, b, *a, **k):
    """scipy.sparse.linalg.cg contract: exact solution of V x = b (DESIGN 2.3)"""
    Vd = V.toarray() if hasattr(V, 'toarray') else real_np.asarray(V)
    return A.solve(Vd, b), 0


VALUE_STUBS = {}


def _stub_for(name, obj):
    """models for names imported *by value* into rsatoolbox modules"""
    import scipy.spatial.distance as ssd
    import scipy.stats as sst
    if obj is ssd.squareform:
        return A.squareform
    if obj is sst.rankdata:
        return lambda a, method='average', **k: (A.rankdata(a, method, **k) if _any_sym((a,))
                                                 else sst.rankdata(a, method, **k))
    if obj is ssd.cdist:
        return cdist_model
    if obj is sst.t:
        return TDistStub()
    if obj is real_np.concatenate or obj is real_np.repeat or obj is real_np.asarray:
        return getattr(PROXY, obj.__name__)
    if obj is real_np.sqrt:
        return real_np.sqrt
    if obj is real_np.ndarray:
        return NdProxy
    return None



# ------------------------------------------------------------------ scipy.sparse shim (dense-backed)

def _mm(a, b):
    a = real_np.asarray(a)
    b = real_np.asarray(b)
    if a.dtype == object or b.dtype == object:
        return wrap(wrap(a) @ wrap(b)) if a.ndim and b.ndim else wrap(a) * wrap(b)
    return a @ b


class DenseSparse:
    """stands in for scipy.sparse matrices that have to carry symbolic entries"""
    ndim = 2

    def __init__(self, a):
        if isinstance(a, DenseSparse):
            a = a.a
        elif hasattr(a, 'toarray'):
            a = a.toarray()
        a = real_np.asarray(a)
        self.a = wrap(a) if a.dtype == object else a

    @property
    def shape(self):
        return self.a.shape

    @property
    def T(self):
        return DenseSparse(self.a.T)

    def transpose(self, *a, **k):
        return DenseSparse(self.a.T)

    def __matmul__(self, o):
        if isinstance(o, DenseSparse):
            return DenseSparse(_mm(self.a, o.a))
        if hasattr(o, 'toarray'):
            return DenseSparse(_mm(self.a, o.toarray()))
        return _mm(self.a, o)

    def __rmatmul__(self, o):
        if hasattr(o, 'toarray'):
            return DenseSparse(_mm(o.toarray(), self.a))
        return _mm(o, self.a)

    dot = __matmul__

    def multiply(self, o):
        ob = o.a if isinstance(o, DenseSparse) else (o.toarray() if hasattr(o, 'toarray') else o)
        if self.a.dtype == object or (isinstance(ob, real_np.ndarray) and ob.dtype == object) or isinstance(ob, R):
            return DenseSparse(wrap(self.a) * (wrap(ob) if isinstance(ob, real_np.ndarray) else ob))
        return DenseSparse(self.a * ob)

    def __mul__(self, o):
        if isinstance(o, (int, float, R)):
            return self.multiply(o)
        return self.__matmul__(o)

    __rmul__ = __mul__

    def __add__(self, o):
        ob = o.a if isinstance(o, DenseSparse) else (o.toarray() if hasattr(o, 'toarray') else o)
        return DenseSparse(wrap(self.a) + ob if self.a.dtype == object else self.a + ob)

    def __sub__(self, o):
        ob = o.a if isinstance(o, DenseSparse) else (o.toarray() if hasattr(o, 'toarray') else o)
        return DenseSparse(self.a - ob)

    def __neg__(self):
        return DenseSparse(-self.a)

    def __truediv__(self, o):
        return DenseSparse(self.a / o)

    def __getitem__(self, key):
        r = self.a[key]
        if isinstance(r, real_np.ndarray) and r.ndim == 2:
            return DenseSparse(r)
        if isinstance(r, real_np.ndarray) and r.ndim == 1:
            # scipy returns 2-d for row/column slices
            if isinstance(key, tuple) and isinstance(key[0], (int, real_np.integer)):
                return DenseSparse(r[None, :])
            if isinstance(key, tuple) and len(key) > 1 and isinstance(key[1], (int, real_np.integer)):
                return DenseSparse(r[:, None])
            return DenseSparse(r[None, :])
        return r

    def tocsc(self): return self
    def tocsr(self): return self
    def tocoo(self): return self
    def asformat(self, *a, **k): return self
    def copy(self): return DenseSparse(self.a.copy())
    def toarray(self): return self.a
    def todense(self): return self.a
    def diagonal(self): return self.a.diagonal()
    def sum(self, axis=None): return self.a.sum(axis=axis)
    def __array__(self, dtype=None, copy=None): return real_np.asarray(self.a)


class _SparseLinalgProxy:
    def cg(self, V, b, *a, **k):
        import scipy.sparse.linalg as ssl
        Vd = V.a if isinstance(V, DenseSparse) else (V.toarray() if hasattr(V, 'toarray') else real_np.asarray(V))
        if Vd.dtype != object and not _any_sym((b,)):
            return ssl.cg(V if not isinstance(V, DenseSparse) else V.a, b, *a, **k)
        # contract: exact solution of V x = b (DESIGN 2.3); tolerance / iteration count outside
        return A.solve(Vd, real_np.asarray(b)), 0

    def spsolve(self, V, b, *a, **k):
        return self.cg(V, b)[0]

    def __getattr__(self, name):
        import scipy.sparse.linalg as ssl
        return getattr(ssl, name)


class _SparseProxy:
    linalg = _SparseLinalgProxy()

    def diags(self, d, *a, **k):
        import scipy.sparse as sp
        if _any_sym((d,)):
            d = real_np.asarray(d)
            n = len(d)
            out = wrap(real_np.zeros((n, n)))
            for i in range(n):
                out[i, i] = d[i]
            return DenseSparse(out)
        return DenseSparse(sp.diags(d, *a, **k))

    def _mk(self, x, *a, **k):
        return DenseSparse(x)

    csr_matrix = csc_matrix = coo_matrix = csr_array = _mk

    def issparse(self, x):
        import scipy.sparse as sp
        return isinstance(x, DenseSparse) or sp.issparse(x)

    def __getattr__(self, name):
        import scipy.sparse as sp
        return getattr(sp, name)


class _SpatialDistanceProxy:
    squareform = staticmethod(A.squareform)
    cdist = staticmethod(cdist_model)

    def __getattr__(self, name):
        import scipy.spatial.distance as ssd
        return getattr(ssd, name)


class _SpatialProxy:
    distance = _SpatialDistanceProxy()

    def __getattr__(self, name):
        import scipy.spatial as m
        return getattr(m, name)


class ScipyProxy:
    """stands in for the top-level scipy module (``import scipy.stats`` binds ``scipy``)"""

    def __init__(self):
        self.stats = _StatsProxy()
        self.sparse = _SparseProxy()
        self.spatial = _SpatialProxy()

    def __getattr__(self, name):
        import scipy
        import importlib
        try:
            return getattr(scipy, name)
        except AttributeError:
            return importlib.import_module('scipy.' + name)


# ------------------------------------------------------------------ networkx shim (geodesic_transform)

class _Edges:
    def __init__(self, g):
        self.g = g

    def data(self, key):
        return [(i, j, w) for (i, j), w in sorted(self.g.w.items())]


class _Graph:
    """weighted undirected graph as networkx.from_numpy_array builds it: an edge for every non-zero entry"""

    def __init__(self, A):
        A = real_np.asarray(A)
        self.n = A.shape[0]
        self.w = {}
        for i in range(self.n):
            for j in range(i + 1, self.n):
                x = R.lift(A[i, j])
                if x.tag == 'nan':
                    raise Unsupported('nan edge weight')
                if bool(x != 0):                 # forks if undecided
                    self.w[(i, j)] = x
        self.edges = _Edges(self)

    def remove_edges_from(self, ids):
        for e in ids:
            i, j = (e[0], e[1]) if e[0] < e[1] else (e[1], e[0])
            self.w.pop((i, j), None)


class NxProxy:
    """stands in for networkx inside rdm/transform.py when edge weights are symbolic"""

    def from_numpy_array(self, A, *a, **k):
        if real_np.asarray(A).dtype != object:
            import networkx
            return networkx.from_numpy_array(A, *a, **k)
        return _Graph(A)

    def floyd_warshall_numpy(self, G, *a, **k):
        if not isinstance(G, _Graph):
            import networkx
            return networkx.floyd_warshall_numpy(G, *a, **k)
        n = G.n
        from .core import PINF
        d = [[ZERO if i == j else PINF for j in range(n)] for i in range(n)]
        for (i, j), w in G.w.items():
            d[i][j] = d[j][i] = w
        for k_ in range(n):
            for i in range(n):
                for j in range(n):
                    via = d[i][k_] + d[k_][j]
                    if bool(via < d[i][j]):      # forks on undecided comparisons
                        d[i][j] = via
        out = real_np.empty((n, n), dtype=object)
        for i in range(n):
            for j in range(n):
                out[i, j] = d[i][j]
        return out.view(SymArray)

    def __getattr__(self, name):
        import networkx
        return getattr(networkx, name)

PROXY = NpProxy()
_saved = []
_MISSING = object()


def _noop(*a, **k):
    return None


class NormStub:
    """scipy.stats.norm: the quantile function of a symbolic probability is an uninterpreted atom ``normppf(u)``
    (finite for 0 < u < 1; its shadow is the real quantile)"""

    def ppf(self, q, *a, **k):
        from scipy.stats import norm as real_norm
        if a or k or not _any_sym((q,)):
            return real_norm.ppf(q, *a, **k)
        if 'normppf' not in core._SH_FUN:
            core.register_atom_kind('normppf', lambda s: float(real_norm.ppf(min(max(s, 1e-12), 1 - 1e-12))))

        def one(v):
            v = R.lift(v)
            if v.tag is not None:
                raise Unsupported('norm.ppf of nan/inf')
            if v.is_const and v.c == Fraction(1, 2):
                return ZERO
            return core.make_atom('normppf', v)
        if isinstance(q, R):
            return one(q)
        return A._elem(one, real_np.asarray(q, dtype=object))

    def __getattr__(self, name):
        from scipy.stats import norm as real_norm
        return getattr(real_norm, name)


def ldl_model(a, lower=True, hermitian=True, **kw):
    """scipy.linalg.ldl on a symbolic symmetric matrix: the unpivoted exact factorisation L D L^T = A with unit
    lower-triangular L and diagonal D (one instance of LAPACK's contract for positive semi-definite input: a zero
    pivot needs a zero residual column, anything else is Unsupported)"""
    import scipy.linalg as real_sl
    a = real_np.asarray(a)
    if a.dtype != object:
        return real_sl.ldl(a, lower=lower, hermitian=hermitian, **kw)
    if not lower or kw:
        raise Unsupported('ldl options')
    n = a.shape[0]
    L = [[ONE if i == j else ZERO for j in range(n)] for i in range(n)]
    d = [ZERO] * n
    for j in range(n):
        dj = R.lift(a[j, j])
        for k in range(j):
            dj = dj - L[j][k] * L[j][k] * d[k]
        zero = bool(dj == 0)
        d[j] = ZERO if zero else dj
        for i in range(j + 1, n):
            r = R.lift(a[i, j])
            for k in range(j):
                r = r - L[i][k] * L[j][k] * d[k]
            if zero:
                if not bool(r == 0):
                    raise Unsupported('ldl: zero pivot with non-zero column (indefinite matrix)')
                L[i][j] = ZERO
            else:
                L[i][j] = r / dj
    Lm = real_np.empty((n, n), dtype=object)
    Dm = real_np.empty((n, n), dtype=object)
    for i in range(n):
        for j in range(n):
            Lm[i, j] = L[i][j]
            Dm[i, j] = d[i] if i == j else ZERO
    return wrap(Lm), wrap(Dm), real_np.arange(n)


class _ScipyLinalgProxy:
    """stands in for scipy.linalg (``import scipy.linalg as sl``)"""
    ldl = staticmethod(ldl_model)

    def __getattr__(self, name):
        import scipy.linalg as real_sl
        f = getattr(real_sl, name)
        if callable(f) and not isinstance(f, type):
            def g(*a, **k):
                if _any_sym(a, k):
                    raise Unsupported(f'scipy.linalg.{name} on symbolic data')
                return f(*a, **k)
            return g
        return f


class _OptResult:
    def __init__(self, x, fun):
        self.x = x
        self.fun = fun
        self.success = True


class _OptProxy:
    """stands in for scipy.optimize.  ``minimize_scalar(method='bounded')`` is replaced by its contract stub: it
    returns SOME point of the bounds (a fresh real) together with the objective evaluated there, so whatever is proved
    holds for the point the real Brent search would return too; optimality itself is not modelled"""

    def minimize_scalar(self, fun, bracket=None, bounds=None, method=None, **kw):
        import z3
        if bounds is None:
            raise Unsupported('minimize_scalar without bounds')
        lo, hi = float(bounds[0]), float(bounds[1])
        w = fresh_real('optw', lo + C.rng.uniform(0.2, 0.8) * (hi - lo))
        C.assume.append(z3.And(w.n >= R.lift(lo).t, w.n <= R.lift(hi).t))
        f = fun(w)
        f = real_np.asarray(f, dtype=object)
        return _OptResult(w, f.flat[0] if f.size == 1 else f)

    def __getattr__(self, name):
        import scipy.optimize as real_opt
        f = getattr(real_opt, name)
        if callable(f) and not isinstance(f, type):
            def g(*a, **k):
                if _any_sym(a, k):
                    raise Unsupported(f'scipy.optimize.{name} on symbolic data')
                return f(*a, **k)
            return g
        return f


class _StatsProxy:
    """stands in for the scipy.stats module"""
    def __init__(self):
        import scipy.stats as sst
        self._m = sst
        self.t = TDistStub()
        self.norm = NormStub()

    def rankdata(self, a, method='average', **k):
        return A.rankdata(a, method, **k) if _any_sym((a,)) else self._m.rankdata(a, method, **k)

    def __getattr__(self, name):
        f = getattr(self._m, name)
        if name == 'kendalltau':
            # SciPy's Python implementation runs unmodified on object arrays: its sorts and
            # comparisons call R.__lt__/__eq__ and fork through B.__bool__
            def kt(x, y, *a, **k):
                if _any_sym((x, y)):
                    x = real_np.asarray(x).view(real_np.ndarray)
                    y = real_np.asarray(y).view(real_np.ndarray)
                return f(x, y, *a, **k)
            return kt
        if callable(f) and not isinstance(f, type):
            def g(*a, **k):
                if _any_sym(a, k):
                    raise Unsupported(f'scipy.stats.{name} on symbolic data')
                return f(*a, **k)
            return g
        return f


def install(extra_modules=()):
    import importlib
    import rsatoolbox
    for m in (('rdm', 'data', 'model', 'inference', 'util', 'util.searchlight', 'util.pooling',
              'util.inference_util', 'data.noise', 'rdm.calc_unbalanced', 'io.fmriprep', 'io.spm', 'io.mne', 'simulation')
              + tuple(extra_modules)):
        importlib.import_module('rsatoolbox.' + m)
    import scipy.stats as sst
    import tqdm as real_tqdm
    if _saved:
        return PROXY
    stats_proxy = _StatsProxy()
    scipy_proxy = ScipyProxy()
    try:
        import networkx as real_nx
    except ImportError:
        real_nx = None
    nx_proxy = NxProxy()
    import scipy as real_scipy
    import scipy.sparse as real_sparse
    import scipy.linalg as real_sl
    import scipy.optimize as real_opt
    sl_proxy = _ScipyLinalgProxy()
    opt_proxy = _OptProxy()
    import rsatoolbox.util.matrix as rmat
    real_pcs = rmat.pairwise_contrast_sparse

    def pcs_dense(index_vector):
        return DenseSparse(real_pcs(index_vector))
    for name, mod in list(sys.modules.items()):
        if not name.startswith('rsatoolbox') or mod is None or name.startswith('rsatoolbox.vis'):
            continue
        for gname, gval in list(vars(mod).items()):
            new = None
            if gval is real_np:
                new = PROXY
            elif gval is sst:
                new = stats_proxy
            elif real_nx is not None and gval is real_nx:
                new = nx_proxy
            elif gval is real_scipy:
                new = scipy_proxy
            elif gval is real_sparse:
                new = scipy_proxy.sparse
            elif gval is real_sl:
                new = sl_proxy
            elif gval is real_opt:
                new = opt_proxy
            elif gval is real_pcs:
                new = pcs_dense
            elif gval is real_sparse.csr_matrix or gval is real_sparse.coo_matrix and not name.endswith('util.matrix'):
                new = DenseSparse
            elif gval is real_tqdm:
                new = _Tqdm()
            elif gval is getattr(real_tqdm, 'tqdm', None):
                new = _Tqdm()
            elif callable(gval) or gval is sst.t:
                try:
                    new = _stub_for(gname, gval)
                except Exception:
                    new = None
            if new is not None:
                _saved.append((mod, gname, gval))
                setattr(mod, gname, new)
        if 'print' not in vars(mod):
            _saved.append((mod, 'print', _MISSING))
            setattr(mod, 'print', _noop)
    return PROXY


def uninstall():
    while _saved:
        mod, gname, gval = _saved.pop()
        if gval is _MISSING:
            try:
                delattr(mod, gname)
            except AttributeError:
                pass
        else:
            setattr(mod, gname, gval)
