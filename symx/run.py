"""symx.run -- path exploration, the per-case test context ``T`` (symbolic and concrete
modes), failure records and replay."""
import json
from fractions import Fraction
import math
import os
import sys
import time
import traceback
import random as _random

import numpy as real_np
import z3

from . import core
from .core import C, R, B, Unsupported, Infeasible, PathLimit, prove_eq, prove, model_value, vars_of
from . import arrays as A
from .arrays import SymArray, wrap, sym_array
from . import proxy as P

REL_TOL = 1e-6


# --------------------------------------------------------------------------- type-generic maths for oracles

def sqrt(x):
    if isinstance(x, R):
        return x.sqrt()
    if isinstance(x, real_np.ndarray):
        return real_np.sqrt(x)
    return math.sqrt(x) if x >= 0 else math.nan


def log(x):
    if isinstance(x, R):
        return x.log()
    if isinstance(x, real_np.ndarray):
        return real_np.log(x)
    return math.log(x) if x > 0 else math.nan


def isnan(x):
    if isinstance(x, R):
        return x.tag == 'nan'
    return x != x


def nan_like(symbolic):
    return core.NAN if symbolic else math.nan


# --------------------------------------------------------------------------- exploration

def explore(fn, max_paths=2000):
    """enumerate every (choice sequence, branch decisions) path of fn(); yields
    (status, result-or-exception).  Stateless depth-first re-execution."""
    todo = [([], [])]
    n = 0
    dropped = 0
    while todo:
        cpre, bpre = todo.pop()
        C.reset_path()
        C.cprefix = cpre
        C.prefix = bpre
        C.pending = []
        status, out = 'ok', None
        try:
            out = fn()
        except Infeasible as e:
            status, out = 'infeasible', e
        except Unsupported as e:
            status, out = 'unsupported', e
        except Exception as e:      # the code under test raised
            status, out = 'exception', e
        n += 1
        cvals = [c for c, _ in C.choices]
        # alternatives of choice points beyond the replayed prefix (branch decisions are re-derived)
        for k in range(len(cpre), len(C.choices)):
            v, dom = C.choices[k]
            for alt in range(dom - 1, v, -1):
                todo.append((cvals[:k] + [alt], []))
        for p in C.pending:
            todo.append((cvals, p))
        yield status, out
        if n >= max_paths and todo:
            raise PathLimit(f'more than {max_paths} paths')


# --------------------------------------------------------------------------- test context

class Failure(dict):
    pass


class T:
    """per-case context handed to harness case functions"""

    def __init__(self, symbolic, values=None, choices=None, seed=0, consts=False, shared=None):
        self.shared = shared if shared is not None else {}
        self.symbolic = symbolic
        self.values = values or {}
        self.replay_choices = choices
        self.consts = consts          # symbolic machinery, constant inputs (self-check)
        self.rng = _random.Random(seed)
        self.inputs = {}              # name -> array (this path)
        self.str_inputs = {}
        self.shapes = {}
        self.obligations = 0
        self.discharged = 0
        self.unknown = 0
        self.failures = []
        self.records = []             # (label, got float repr) in concrete/const modes
        self.samples = []
        self.notes = []

    # ---- inputs
    def arr(self, name, shape, positive=False, lo=None, hi=None):
        shape = tuple(shape) if not isinstance(shape, int) else (shape,)
        self.shapes[name] = (shape, positive)
        if self.symbolic and not self.consts:
            a = sym_array(shape, name, positive=positive)
            if positive:
                for v in a.flat:
                    C.assume.append(v.n > 0)
            if lo is not None and hi is not None:
                # bounded input: range assumption, and a shadow point inside the range
                for v in a.flat:
                    v.sh = float(lo) + C.rng.uniform(0.15, 0.85) * (float(hi) - float(lo))
                    C.assume.append(z3.And(v.n >= core.R.lift(lo).t, v.n <= core.R.lift(hi).t))
            self.inputs[name] = a
            return a.copy()
        if name in self.values:
            vals = real_np.array(self.values[name], dtype=float).reshape(shape)
        else:
            lo_ = (0.3 if positive else -2.0) if lo is None else lo
            hi_ = (3.0 if positive else 2.0) if hi is None else hi
            vals = real_np.array([self.rng.uniform(lo_, hi_) for _ in range(int(real_np.prod(shape)))]).reshape(shape)
            vals = real_np.round(vals, 3)
            self.values[name] = vals.tolist()
        self.inputs[name] = vals
        if self.consts:
            return wrap(vals.copy())
        return vals.copy()

    def sym_str(self, name, default):
        """a symbolic string atom (value grammar [A-Za-z0-9]+); concrete mode: the recorded / default value"""
        if self.symbolic and not self.consts:
            from .strings import Atom, SS
            a = Atom(name, default)
            self.str_inputs[name] = a
            return SS([a])
        return self.values.get('__str__', {}).get(name, default)

    def scalar(self, name, positive=False):
        return self.arr(name, (1,), positive=positive)[0]

    def assume(self, cond):
        """restrict the input domain (recorded as an assumption of the claim)"""
        if isinstance(cond, B):
            if cond.concrete:
                if not cond.t:
                    raise Infeasible('assumption false')
                return
            C.assume.append(cond.t)
        elif not cond:
            raise Infeasible('assumption false')

    def limit_draws(self, k, fixed):
        """only the first k random draws are enumerated exhaustively; later draws take the outcomes in `fixed`
        (cyclically).  Part of the stated bound of the check."""
        if self.symbolic:
            C.choice_limit = k
            C.fixed_choices = list(fixed)

    def draws(self):
        """values of the random choice points taken so far on this path"""
        if self.symbolic:
            return [c for c, _ in C.choices]
        return list(self._cr.log)

    # ---- obligations
    def _flat(self, x):
        if isinstance(x, (R, B)):
            return [x], ()
        x = real_np.asarray(x, dtype=object if (isinstance(x, real_np.ndarray) and x.dtype == object) else None)
        return list(x.reshape(-1)), x.shape

    def eq(self, label, got, want, key=None, tol=REL_TOL):
        """obligation: got == want for every input value (element-wise)"""
        g, gs = self._flat(got)
        w, ws = self._flat(want)
        if gs != ws:
            if len(g) == len(w):
                pass
            else:
                self._fail(label, key, 'shape', f'shape {gs} vs expected {ws}', None)
                self.obligations += 1
                return False
        ok = True
        for i, (a, b) in enumerate(zip(g, w)):
            self.obligations += 1
            lab = f'{label}[{i}]' if len(g) > 1 else label
            if self.symbolic:
                try:
                    r, m = prove_eq(a, b)
                except Unsupported as e:
                    r, m = 'unknown', None
                    self.notes.append(f'{lab}: {e}')
                if r == 'unsat':
                    self.discharged += 1
                elif r == 'sat':
                    ok = False
                    self._fail(lab, key, 'value', f'got {_short(a)} want {_short(b)}', m)
                else:
                    ok = False
                    self.unknown += 1
                    self.notes.append(f'{lab}: solver unknown')
                    # the solver could neither prove nor refute: if the two sides differ at the concolic shadow point,
                    # that point is a candidate witness -- it only counts if the float replay reproduces it
                    sa, sb = getattr(a, 'sh', None), getattr(b, 'sh', None)
                    if isinstance(b, (int, float, Fraction)):
                        sb = float(b)
                    if sa is not None and sb is not None and sa == sa and sb == sb and not _feq(sa, sb, 1e-4):
                        self._fail(lab, key, 'value', f'solver unknown; sides differ at the shadow point: got {sa!r} want {sb!r}',
                                   'shadow')
                if self.consts:
                    self.records.append((lab, _tofloat(a)))
            else:
                fa, fb = _tofloat(a), _tofloat(b)
                self.records.append((lab, fa))
                if _feq(fa, fb, tol):
                    self.discharged += 1
                else:
                    ok = False
                    self._fail(lab, key, 'value', f'got {fa!r} want {fb!r}', None)
        if len(self.samples) < 3 and g and w:
            self.samples.append(f'{label}: {_short(g[0])} == {_short(w[0])}')
        return ok

    def holds(self, label, cond, key=None):
        """obligation: symbolic boolean cond is valid under the path condition"""
        self.obligations += 1
        if isinstance(cond, real_np.ndarray):
            cond = A._reduce('logical_and', cond)
        if isinstance(cond, (bool, real_np.bool_)):
            cond = B(bool(cond))
        if self.symbolic:
            try:
                r, m = prove(cond)
            except Unsupported as e:
                r, m = 'unknown', None
                self.notes.append(f'{label}: {e}')
            if r == 'unsat':
                self.discharged += 1
                return True
            if r == 'sat':
                self._fail(label, key, 'cond', 'condition can be false', m)
            else:
                self.unknown += 1
                self.notes.append(f'{label}: solver unknown')
            return False
        if bool(cond.t if isinstance(cond, B) else cond):
            self.discharged += 1
            return True
        self._fail(label, key, 'cond', 'condition is false', None)
        return False

    def concrete(self, label, ok, detail='', key=None):
        """obligation over concrete structure (labels, shapes, index sets)"""
        self.obligations += 1
        if ok:
            self.discharged += 1
        else:
            self._fail(label, key, 'struct', detail, None)
        return bool(ok)

    def raises(self, label, exc, fn, key=None):
        self.obligations += 1
        try:
            r = fn()
        except exc:
            self.discharged += 1
            return True
        self._fail(label, key, 'noraise', f'expected {getattr(exc, "__name__", exc)}, returned {_short(r)}', None)
        return False

    def _fail(self, label, key, kind, detail, model):
        vals = {}
        if self.symbolic and not self.consts:
            if model == 'shadow':
                model = None
            elif model is None and C.path:
                # obligation decided without the solver (constants on a forked path): witness = model of the path condition
                pc = C.pc()
                try:
                    r, model = core.check(pc + core.relevant(pc), want_model=True)
                except Exception:
                    model = None
            for name, a in self.inputs.items():
                out = real_np.empty(a.shape)
                for idx in real_np.ndindex(*a.shape):
                    v = a[idx]
                    mv = None
                    if model is not None:
                        try:
                            if model[v.n] is not None:
                                mv = model_value(model, v.n)
                        except Exception:
                            mv = None
                    out[idx] = v.sh if mv is None else mv
                vals[name] = out.tolist()
            if self.str_inputs:
                sv = {}
                for name, a in self.str_inputs.items():
                    val = None
                    if model is not None:
                        try:
                            mv = model.eval(a.z, model_completion=True)
                            val = mv.as_string() if z3.is_string_value(mv) else None
                        except Exception:
                            val = None
                    sv[name] = val if val else a.sh
                vals['__str__'] = sv
        else:
            vals = {k: (v.tolist() if isinstance(v, real_np.ndarray) else v) for k, v in self.values.items()}
        self.failures.append(Failure(label=label, key=key or label.split('[')[0], kind=kind, detail=str(detail)[:400],
                                     values=vals, choices=[c for c, _ in C.choices] if self.symbolic else self.replay_choices))


def _short(x):
    s = repr(x)
    return s if len(s) < 120 else s[:117] + '...'


def _tofloat(x):
    if isinstance(x, R):
        if x.tag:
            return x.sh
        if x.c is not None:
            return float(x.c)
        return x.sh if x.sh is not None else math.nan
    if isinstance(x, B):
        return float(bool(x.t)) if x.concrete else math.nan
    try:
        return float(x)
    except TypeError:
        return x


def _feq(a, b, tol=REL_TOL):
    if isinstance(a, float) and isinstance(b, float):
        if a != a or b != b:
            return (a != a) and (b != b)
        if math.isinf(a) or math.isinf(b):
            return a == b
        return abs(a - b) <= tol * max(1.0, abs(a), abs(b))
    return a == b


# --------------------------------------------------------------------------- running one configuration

class ConcreteRandom:
    """replays recorded choices through numpy's random API (concrete mode)"""

    def __init__(self, choices):
        self.choices = list(choices or [])
        self.k = 0
        self.log = []

    def next(self, n):
        if self.k < len(self.choices):
            v = self.choices[self.k]
        else:
            v = 0
        self.k += 1
        v = min(v, n - 1)
        self.log.append(v)
        return v


def run_symbolic(case, cfg, max_paths=2000, consts=False, seed=0, timeout_ms=None):
    """execute case(T, cfg) on every path; returns summary dict"""
    P.install()
    core.C.symbolic = True
    if timeout_ms:
        C.timeout = timeout_ms
    C.rng = _random.Random(seed * 7919 + 13)
    C.varsh = {}
    C.choice_limit = None
    C.fixed_choices = None
    res = dict(paths=0, infeasible=0, obligations=0, discharged=0, unknown=0, failures=[], notes=[], samples=[],
               unsupported=[])
    tvals = {}
    shared = {}

    def once():
        t = T(True, values=tvals, consts=consts, seed=seed, shared=shared)
        try:
            case(t, cfg)
        finally:
            once.t = t
        return t

    try:
        for status, out in explore(once, max_paths=max_paths):
            t = once.t
            res['paths'] += 1
            res['obligations'] += t.obligations
            res['discharged'] += t.discharged
            res['unknown'] += t.unknown
            res['notes'].extend(t.notes[:5])
            if len(res['samples']) < 3:
                res['samples'].extend(t.samples[:3 - len(res['samples'])])
            res['failures'].extend(t.failures)
            if consts:
                res.setdefault('records', []).extend(t.records)
            if status == 'infeasible':
                res['infeasible'] += 1
            elif status == 'unsupported':
                res['unsupported'].append(str(out)[:300])
            elif status == 'exception':
                tb = traceback.extract_tb(out.__traceback__)
                loc = [f'{os.path.basename(x.filename)}:{x.lineno}:{x.name}' for x in tb][-4:]
                inrepo = any('/rsatoolbox/' in x.filename for x in tb)
                t._fail('exception', f'exception:{type(out).__name__}', 'exception',
                        f'{type(out).__name__}: {out} @ {loc}', None)
                t.failures[-1]['exc'] = type(out).__name__
                t.failures[-1]['inrepo'] = inrepo
                res['failures'].append(t.failures[-1])
                res['obligations'] += 1
    except PathLimit as e:
        res['unsupported'].append(str(e))
    except BaseException as e:
        if type(e).__name__ != 'HardTimeout':
            raise
        # hard wall-clock stop in the middle of a path: keep what the finished paths and the interrupted one have
        # already established (candidate failures still go through the float replay); the configuration itself
        # stays inconclusive
        t = getattr(once, 't', None)
        if t is not None:
            res['obligations'] += t.obligations
            res['discharged'] += t.discharged
            res['unknown'] += t.unknown
            res['failures'].extend(t.failures)
        res['unsupported'].append(f'harness error HardTimeout: {e}')
        return res
    fin = getattr(case, 'finish', None)
    if fin is not None and not res['unsupported']:
        # cross-path (aggregate) obligations, e.g. counting over the complete outcome space
        t = T(True, values=tvals, consts=consts, seed=seed, shared=shared)
        C.reset_path()
        fin(t, cfg)
        for f in t.failures:
            f['kind'] = 'aggregate'
            f['all_choices'] = shared.get('all_choices', [])
        res['obligations'] += t.obligations
        res['discharged'] += t.discharged
        res['failures'].extend(t.failures)
    return res


def run_concrete(case, cfg, values=None, choices=None, seed=0, shared=None):
    """execute case(T, cfg) with float inputs on the unmodified numpy path"""
    P.uninstall()
    core.C.symbolic = False
    t = T(False, values=dict(values or {}), choices=choices, seed=seed, shared=shared)
    cr = ConcreteRandom(choices)
    t._cr = cr
    saved = {}
    rp = _ReplayRandom(cr)
    for name in ('randint', 'permutation', 'shuffle', 'choice', 'rand', 'random', 'uniform'):
        saved[name] = getattr(real_np.random, name)
        setattr(real_np.random, name, getattr(rp, name))
    status, exc = 'ok', None
    try:
        with real_np.errstate(all='ignore'):
            case(t, cfg)
    except Exception as e:
        status, exc = 'exception', e
    finally:
        for name, f in saved.items():
            setattr(real_np.random, name, f)
    return t, status, exc


class _ReplayRandom:
    """np.random replacement in concrete mode: identical choice protocol as RandomProxy"""

    def __init__(self, cr):
        self.cr = cr
        self.rng = real_np.random.RandomState(12345)

    def _choose(self, n):
        return self.cr.next(n)

    def randint(self, low, high=None, size=None, dtype=int):
        if high is None:
            low, high = 0, low
        low, high = int(low), int(high)
        if size is None:
            return low + self._choose(high - low)
        shape = (size,) if isinstance(size, (int, real_np.integer)) else tuple(size)
        n = int(real_np.prod(shape))
        return real_np.array([low + self._choose(high - low) for _ in range(n)], dtype=int).reshape(shape)

    def permutation(self, x):
        items = list(range(int(x))) if isinstance(x, (int, real_np.integer)) else list(x)
        out = []
        pool = list(items)
        while pool:
            out.append(pool.pop(self._choose(len(pool))))
        return real_np.array(out)

    def shuffle(self, x):
        perm = self.permutation(len(x))
        if isinstance(x, real_np.ndarray):
            x[...] = x[perm]
        else:
            x[:] = [x[i] for i in perm]

    def choice(self, a, size=None, replace=True, p=None):
        items = list(range(a)) if isinstance(a, (int, real_np.integer)) else list(a)
        if size is None:
            return items[self._choose(len(items))]
        n = int(real_np.prod(size))
        if replace:
            out = [items[self._choose(len(items))] for _ in range(n)]
        else:
            pool = list(items)
            out = [pool.pop(self._choose(len(pool))) for _ in range(n)]
        return real_np.array(out).reshape(size)

    def rand(self, *shape):
        return self.rng.rand(*shape)

    def random(self, size=None):
        return self.rng.random_sample(size)

    def uniform(self, low=0.0, high=1.0, size=None):
        return self.rng.uniform(low, high, size)


def replay_failure(case, cfg, failure):
    """does the failure reproduce on the unmodified float implementation?"""
    if failure.get('kind') == 'aggregate':
        shared = {}
        vals = failure.get('values')
        for ch in failure.get('all_choices', []):
            t, status, exc = run_concrete(case, cfg, values=vals, choices=ch, shared=shared)
            vals = t.values
            if status == 'exception':
                return False, f'concrete run raised {type(exc).__name__}: {exc}'
        t = T(False, values=vals, shared=shared)
        case.finish(t, cfg)
        for f in t.failures:
            if f['label'] == failure['label']:
                return True, f['detail']
        return False, 'aggregate obligation holds on the float implementation'
    t, status, exc = run_concrete(case, cfg, values=failure.get('values'), choices=failure.get('choices'))
    if failure.get('kind') == 'exception':
        if status == 'exception' and type(exc).__name__ == failure.get('exc'):
            return True, f'{type(exc).__name__}: {exc}'
        return False, f'concrete run status={status} {exc!r}'
    if status == 'exception':
        return False, f'concrete run raised {type(exc).__name__}: {exc}'
    for f in t.failures:
        if f['label'] == failure['label']:
            return True, f['detail']
    # a different element of the same obligation family also counts as reproduced
    fam = failure['label'].split('[')[0]
    for f in t.failures:
        if f['label'].split('[')[0] == fam:
            return True, f"{f['label']}: {f['detail']}"
    return False, 'concrete run satisfied the obligation'
