"""symx.core -- symbolic scalars, path conditions, forking, solver queries.

A symbolic real ``R`` is  numerator / product(denominator factors)  over z3 Real
variables (see DESIGN.md section 2.1).  Constants are kept as Fractions and never
touch z3.  Every R carries a float *shadow* (its value at a random point of the input
space) that is used ONLY as a heuristic: to pre-filter atom merging and to order
exploration.  All verdicts come from z3.
"""
import math
import random
import time
from fractions import Fraction

import numpy as _np
import z3


class Unsupported(Exception):
    """The engine cannot model this operation on symbolic data -> inconclusive."""


class Infeasible(BaseException):
    """Current path is infeasible / outside the stated domain; drop it."""


class PathLimit(Exception):
    pass


P_TIMEOUT_MS = 60000


class Ctx:
    def __init__(self):
        self.stats = dict(queries=0, solver_s=0.0, unsat=0, sat=0, unknown=0,
                          atoms=0, merged=0)
        self.rng = random.Random(0)
        self.varsh = {}
        self.timeout = P_TIMEOUT_MS
        self.feas_timeout = 10000
        self.assume_pos_sqrt = False
        self.choice_limit = None    # number of leading random draws that are enumerated exhaustively
        self.fixed_choices = None   # outcomes used for the draws after that
        self.skip_unknown = False   # harness option: do not explore branches whose feasibility z3 cannot decide
        self.deadline = None      # wall-clock budget of the current configuration
        self.reset_path()
        self.prefix = []
        self.cprefix = []
        self.pending = []
        self.symbolic = True

    def reset_path(self):
        self.defs = {}        # atom var id -> definition constraint
        self.atoms = []       # (kind, R arg, atom R)
        self.nonzero = {}     # ast id -> term assumed != 0
        self.assume = []      # extra assumptions (z3 bools) made by the harness
        self.path = []        # [(decision, z3 cond)]
        self.choices = []     # [(value, n)]
        self.n = 0
        self.axioms = []      # lazily instantiated axioms about UF atoms (z3 bools)
        self.assumed_keep = []
        self.str_keep = []
        self.assumed_ids = {}     # ast id of a condition that literally is a recorded assumption -> its value
        self.sqrt_args = {}       # z3 id of a sqrt atom -> its argument R
        self.on_shadow = True     # every decision so far agreed with the float shadow point
        self.closed_ids = set()   # atoms of constant arguments (sqrt(2), ...)
        self.decided = {}     # z3 ast id of a branch condition -> decision on this path
        self.implied = []     # conditions found implied by the path condition (not part of it)

    def pc(self):
        return [c if v else z3.Not(c) for v, c in self.path]


C = Ctx()


def vars_of(e, acc=None, seen=None):
    acc = {} if acc is None else acc
    seen = set() if seen is None else seen
    stack = [e]
    while stack:
        t = stack.pop()
        i = t.get_id()
        if i in seen:
            continue
        seen.add(i)
        if z3.is_const(t):
            if t.decl().kind() == z3.Z3_OP_UNINTERPRETED:
                acc[i] = t
        else:
            stack.extend(t.children())
    return acc


def check(cons, timeout=None, want_model=False):
    to = timeout or C.timeout
    if C.deadline is not None:
        left = int((C.deadline - time.time()) * 1000)
        if left <= 50:
            # per-configuration wall budget exhausted: inconclusive, never success
            C.stats['unknown'] = C.stats.get('unknown', 0) + 1
            return ('unknown', None) if want_model else 'unknown'
        to = min(to, left)
    s = z3.Solver()
    s.set('timeout', to)
    for c in cons:
        s.add(c)
    t0 = time.time()
    r = str(s.check())
    C.stats['queries'] += 1
    C.stats['solver_s'] += time.time() - t0
    if r == 'unknown' and to >= 10000:
        # nlsat run times are heavy-tailed in the variable order: before giving up on an obligation, restart twice
        # with the assertions in another order and another seed (half the time each, within the configuration budget)
        cons = list(cons)
        for k, order in enumerate((cons[::-1], cons[len(cons) // 2:] + cons[:len(cons) // 2])):
            to2 = to // 2
            if C.deadline is not None:
                to2 = min(to2, int((C.deadline - time.time()) * 1000))
            if to2 <= 500:
                break
            s = z3.Solver()
            s.set('timeout', to2)
            try:
                s.set('random_seed', 17 + 84 * k)
            except Exception:
                pass
            for c in order:
                s.add(c)
            t0 = time.time()
            r = str(s.check())
            C.stats['queries'] += 1
            C.stats['retries'] = C.stats.get('retries', 0) + 1
            C.stats['solver_s'] += time.time() - t0
            if r != 'unknown':
                break
    C.stats[r] = C.stats.get(r, 0) + 1
    if want_model:
        return r, (s.model() if r == 'sat' else None)
    return r


def relevant(terms, with_defs=True):
    """assumptions relevant to the given terms: atom definitions in the cone of
    influence, the non-zero-denominator assumptions over those variables, harness
    assumptions and instantiated axioms over those variables."""
    need = {}
    seen = set()
    for t in terms:
        vars_of(t, need, seen)
    out = []
    work = list(need.values())
    done = set()
    while work:
        v = work.pop()
        i = v.get_id()
        if i in done:
            continue
        done.add(i)
        if with_defs:
            d = C.defs.get(i)
            if d is not None:
                out.append(d)
                work.extend(vars_of(d).values())
    for t in C.nonzero.values():
        if all(i in done for i in vars_of(t)):
            out.append(t != 0)
    for a in C.assume:
        if all(i in done for i in vars_of(a)):
            out.append(a)
    if with_defs:
        for a in C.axioms:
            if all(i in done for i in vars_of(a)):
                out.append(a)
    return out


# --------------------------------------------------------------------------- bool

class B:
    """symbolic boolean; ``t`` is a python bool or a z3 BoolRef; sh = shadow truth"""
    __slots__ = ('t', 'sh')

    def __init__(self, t, sh=None):
        if isinstance(t, (bool, _np.bool_)):
            t = bool(t)
            sh = t
        self.t = t
        self.sh = sh

    @property
    def concrete(self):
        return isinstance(self.t, bool)

    def z(self):
        return z3.BoolVal(self.t) if isinstance(self.t, bool) else self.t

    def __bool__(self):
        if isinstance(self.t, bool):
            return self.t
        return decide(self.t, self.sh)

    @staticmethod
    def lift(x):
        if isinstance(x, B):
            return x
        if isinstance(x, (bool, _np.bool_, int)):
            return B(bool(x))
        raise TypeError(type(x))

    def __and__(self, o):
        o = B.lift(o)
        if self.concrete:
            return o if self.t else B(False)
        if o.concrete:
            return self if o.t else B(False)
        return B(z3.And(self.t, o.t), None if self.sh is None or o.sh is None else self.sh and o.sh)

    def __or__(self, o):
        o = B.lift(o)
        if self.concrete:
            return B(True) if self.t else o
        if o.concrete:
            return B(True) if o.t else self
        return B(z3.Or(self.t, o.t), None if self.sh is None or o.sh is None else self.sh or o.sh)

    def __invert__(self):
        if self.concrete:
            return B(not self.t)
        return B(z3.Not(self.t), None if self.sh is None else not self.sh)

    __rand__ = __and__
    __ror__ = __or__

    def __repr__(self):
        return f'B({self.t})'

    # numpy's logical_not / sum on object arrays
    def __eq__(self, o):
        o = B.lift(o)
        if self.concrete and o.concrete:
            return B(self.t == o.t)
        return B(self.z() == o.z())

    __hash__ = None


def decide(t, sh=None):
    """fork on a symbolic condition"""
    t = z3.simplify(t)
    if z3.is_true(t):
        return True
    if z3.is_false(t):
        return False
    tid = t.get_id()
    if tid in C.decided:
        return C.decided[tid]
    if tid in C.assumed_ids:
        return C.assumed_ids[tid]
    k = len(C.path)
    if k < len(C.prefix):
        v = C.prefix[k]
        C.path.append((v, t))
        C.decided[tid] = v
        if sh is not None and bool(sh) != v:
            C.on_shadow = False
        return v
    pc = C.pc()
    rel = relevant(pc + [t])
    ft = min(C.timeout, C.feas_timeout)
    if C.on_shadow and sh is not None:
        # concolic shortcut: the shadow point is a concrete witness of the path so far, so the side it
        # takes is feasible; only the other side needs the solver.  (Exploring an infeasible path would
        # be harmless anyway: its obligations hold vacuously and `sat` answers are always real witnesses.)
        first = bool(sh)
        other = check(pc + rel + [z3.Not(t) if first else t], timeout=ft)
        C.path.append((first, t))
        C.decided[tid] = first
        if other == 'unknown':
            C.stats['feas_unknown'] = C.stats.get('feas_unknown', 0) + 1
        if other == 'sat' or (other == 'unknown' and not C.skip_unknown):
            C.pending.append([d for d, _ in C.path[:-1]] + [not first])
        return first
    rT = check(pc + rel + [t], timeout=ft)
    rF = check(pc + rel + [z3.Not(t)], timeout=ft)
    if rT == 'unknown' or rF == 'unknown':
        # undecided feasibility: explore the side anyway (sound, see above); counted in the evidence
        C.stats['feas_unknown'] = C.stats.get('feas_unknown', 0) + 1
        if C.skip_unknown and 'sat' in (rT, rF):
            # follow only the side known to be feasible; the other is counted as unexplored
            rT = 'unsat' if rT == 'unknown' else rT
            rF = 'unsat' if rF == 'unknown' else rF
        else:
            rT = 'sat' if rT == 'unknown' else rT
            rF = 'sat' if rF == 'unknown' else rF
    if rT == 'sat' and rF == 'sat':
        first = True if sh is None else bool(sh)
        C.path.append((first, t))
        C.pending.append([d for d, _ in C.path[:-1]] + [not first])
        C.decided[tid] = first
        return first
    if rT == 'sat':
        C.path.append((True, t))      # implied decisions stay on the path: replay alignment
        C.decided[tid] = True
        return True
    if rF == 'sat':
        C.path.append((False, t))
        C.decided[tid] = False
        return False
    raise Infeasible('path condition became unsatisfiable')


def choose(n, label=''):
    """non-deterministic choice point with n alternatives (explored exhaustively)"""
    n = int(n)
    if n <= 0:
        raise ValueError('choose from empty range')
    k = len(C.choices)
    if C.choice_limit is not None and k >= C.choice_limit:
        # beyond the exhaustively explored prefix of draws: a fixed representative outcome (stated in the bounds)
        fx = C.fixed_choices
        v = (fx[(k - C.choice_limit) % len(fx)] if fx else 0) % n
        C.choices.append((v, 1))        # domain 1: not enumerated
        return v
    if k < len(C.cprefix):
        v = C.cprefix[k]
        if v >= n:
            raise Unsupported('choice replay out of range')
    else:
        v = 0
    C.choices.append((v, n))
    return v


# --------------------------------------------------------------------------- reals

def _to_fraction(x):
    """float -> simplest nearby rational (float contamination rule, DESIGN 2.2)"""
    if isinstance(x, Fraction):
        return x
    if isinstance(x, (bool, _np.bool_, int, _np.integer)):
        return Fraction(int(x))
    x = float(x)
    if x == int(x) and abs(x) < 2**53:
        return Fraction(int(x))
    ex = Fraction(x)
    ap = ex.limit_denominator(10**6)
    if abs(float(ap) - x) <= 1e-13 * max(abs(x), 1e-300):
        return ap
    return ex


def _rv(fr):
    return z3.RealVal(str(fr))


def _isqrt_frac(c):
    if c < 0:
        return None
    a = math.isqrt(c.numerator)
    b = math.isqrt(c.denominator)
    if a * a == c.numerator and b * b == c.denominator:
        return Fraction(a, b)
    return None


class R:
    __slots__ = ('c', '_n', 'd', 'tag', 'sh', 'closed')

    def __init__(self, n=None, d=None, c=None, tag=None, sh=None):
        self.closed = False      # atom of a constant argument (e.g. sqrt(2)): float() allowed
        self.c = c
        self._n = n
        self.d = d or {}
        self.tag = tag
        if sh is None:
            if tag is not None:
                sh = {'nan': math.nan, 'inf': math.inf, '-inf': -math.inf}[tag]
            elif c is not None:
                sh = float(c)
        self.sh = sh

    # ---- constructors
    @staticmethod
    def const(x):
        return R(c=_to_fraction(x))

    @staticmethod
    def var(name, sh=None, lo=-2.0, hi=2.0):
        v = z3.Real(name)
        if sh is None:
            sh = C.varsh.get(name)
            if sh is None:
                sh = C.rng.uniform(lo, hi)
                if abs(sh) < 0.05:
                    sh = 0.05 if sh >= 0 else -0.05
                C.varsh[name] = sh
        return R(n=v, sh=sh)

    @staticmethod
    def lift(x):
        if isinstance(x, R):
            return x
        if isinstance(x, (bool, _np.bool_, int, _np.integer, Fraction)):
            return R(c=Fraction(x) if isinstance(x, Fraction) else Fraction(int(x)))
        if isinstance(x, (float, _np.floating)):
            x = float(x)
            if x != x:
                return NAN
            if x == math.inf:
                return PINF
            if x == -math.inf:
                return NINF
            return R(c=_to_fraction(x))
        if isinstance(x, B):
            if x.concrete:
                return R(c=Fraction(int(x.t)))
            return R(n=z3.If(x.t, z3.RealVal(1), z3.RealVal(0)),
                     sh=None if x.sh is None else float(x.sh))
        if isinstance(x, _np.ndarray) and x.ndim == 0:
            return R.lift(x[()])
        raise TypeError(f'cannot lift {type(x)} to R')

    # ---- views
    @property
    def n(self):
        if self._n is None:
            self._n = _rv(self.c)
        return self._n

    @property
    def t(self):
        """full z3 term"""
        if self.tag is not None:
            raise Unsupported(f'{self.tag} used as a real term')
        if not self.d:
            return self.n
        return self.n / _den_term(self.d)

    @property
    def is_const(self):
        return self.c is not None and self.tag is None

    @property
    def nan(self):
        return self.tag == 'nan'

    # ---- arithmetic
    def _tagop(self, o, op):
        """arithmetic involving nan/inf tags (only concrete cases are supported)"""
        if self.tag == 'nan' or o.tag == 'nan':
            return NAN
        a = self.sh if self.tag else (float(self.c) if self.c is not None else None)
        b = o.sh if o.tag else (float(o.c) if o.c is not None else None)
        if a is None or b is None:
            # inf combined with a symbolic finite real: sign-independent cases only
            if op in '+-':
                if self.tag:
                    return self
                return o if op == '+' else (PINF if o.tag == '-inf' else NINF)
            raise Unsupported('inf times/over symbolic value')
        try:
            with _np.errstate(all='ignore'):
                r = {'+': lambda: a + b, '-': lambda: a - b, '*': lambda: a * b,
                     '/': lambda: _np.float64(a) / _np.float64(b)}[op]()
        except ZeroDivisionError:
            r = math.nan
        return R.lift(float(r))

    def _addsub(self, o, sign):
        try:
            o = R.lift(o)
        except TypeError:
            return NotImplemented
        if self.tag or o.tag:
            return self._tagop(o, '+' if sign > 0 else '-')
        if self.c is not None and o.c is not None:
            return R(c=self.c + o.c if sign > 0 else self.c - o.c)
        if o.c == 0:
            return self
        if self.c == 0:
            return o if sign > 0 else -o
        sh = None if self.sh is None or o.sh is None else (self.sh + o.sh if sign > 0 else self.sh - o.sh)
        if not self.d and not o.d:
            return R(n=self.n + o.n if sign > 0 else self.n - o.n, sh=sh)
        if self.d.keys() == o.d.keys() and all(self.d[k][1] == o.d[k][1] for k in self.d):
            return R(n=self.n + o.n if sign > 0 else self.n - o.n, d=self.d, sh=sh)
        l = _den_lcm(self.d, o.d)
        qa = _den_quot(l, self.d)
        qb = _den_quot(l, o.d)
        a = self.n if qa is None else self.n * qa
        b = o.n if qb is None else o.n * qb
        return R(n=a + b if sign > 0 else a - b, d=l, sh=sh)

    def __add__(self, o): return self._addsub(o, 1)
    def __sub__(self, o): return self._addsub(o, -1)

    def __radd__(self, o):
        try:
            return R.lift(o)._addsub(self, 1)
        except TypeError:
            return NotImplemented

    def __rsub__(self, o):
        try:
            return R.lift(o)._addsub(self, -1)
        except TypeError:
            return NotImplemented

    def __mul__(self, o):
        try:
            o = R.lift(o)
        except TypeError:
            return NotImplemented
        if self.tag or o.tag:
            return self._tagop(o, '*')
        if self.c is not None and o.c is not None:
            return R(c=self.c * o.c)
        if self.c is not None:
            self, o = o, self
        if o.c is not None:
            if o.c == 0:
                return ZERO
            if o.c == 1:
                return self
            sh = None if self.sh is None else self.sh * float(o.c)
            if o.c == -1:
                return R(n=-self.n, d=self.d, sh=sh)
            return R(n=self.n * o.n, d=self.d, sh=sh)
        sh = None if self.sh is None or o.sh is None else self.sh * o.sh
        if not self.d and not o.d and self._n is not None and o._n is not None and \
                self._n.get_id() == o._n.get_id() and self._n.get_id() in C.sqrt_args:
            return C.sqrt_args[self._n.get_id()]          # sqrt(t)*sqrt(t) = t
        return _sqrt_reduce(self.n * o.n, _den_mul(self.d, o.d), sh)

    __rmul__ = __mul__

    def __truediv__(self, o):
        try:
            o = R.lift(o)
        except TypeError:
            return NotImplemented
        if self.tag or o.tag:
            return self._tagop(o, '/')
        if o.c is not None:
            if o.c == 0:
                if self.c is not None:
                    return NAN if self.c == 0 else (PINF if self.c > 0 else NINF)
                raise Unsupported('symbolic value divided by constant zero')
            if self.c is not None:
                return R(c=self.c / o.c)
            return self * R(c=1 / o.c)
        # symbolic divisor: record the non-zero assumption (DESIGN 3.3)
        if o.sh is not None and o.sh == 0:
            raise Unsupported('shadow of divisor is zero')
        on = o.n
        C.nonzero.setdefault(on.get_id(), on)
        num = self if not o.d else self * R(n=_den_term(o.d), sh=1.0)
        sh = None if self.sh is None or o.sh is None else self.sh / o.sh
        if self.c is not None and self.c == 0:
            return ZERO
        # (a.n/a.d) / (o.n/o.d) = a.n*o.d / (a.d*o.n); cancel o.n against numerator-side denominators is not attempted
        if o.d:
            odt = _den_term(o.d)
            return _sqrt_reduce(self.n * odt, _den_mul(self.d, {on.get_id(): (on, 1)}), sh)
        return _sqrt_reduce(self.n, _den_mul(self.d, {on.get_id(): (on, 1)}), sh)

    def __rtruediv__(self, o):
        try:
            return R.lift(o).__truediv__(self)
        except TypeError:
            return NotImplemented

    def __neg__(self):
        if self.tag:
            return {'nan': NAN, 'inf': NINF, '-inf': PINF}[self.tag]
        if self.c is not None:
            return R(c=-self.c)
        return R(n=-self.n, d=self.d, sh=None if self.sh is None else -self.sh)

    def __pos__(self):
        return self

    def __abs__(self):
        if self.tag:
            return NAN if self.tag == 'nan' else PINF
        if self.c is not None:
            return R(c=abs(self.c))
        t = self.t
        return R(n=z3.If(t >= 0, t, -t), sh=None if self.sh is None else abs(self.sh))

    def __pow__(self, k):
        if isinstance(k, R):
            if k.c is None:
                raise Unsupported('symbolic exponent')
            k = k.c
        k = _to_fraction(k)
        if self.tag:
            if self.tag == 'nan':
                return NAN
            raise Unsupported('power of inf')
        if k == Fraction(1, 2):
            return self.sqrt()
        if k == Fraction(-1, 2):
            return 1 / self.sqrt()
        if k.denominator == 1:
            e = int(k)
            if e >= 0:
                r = ONE
                for _ in range(e):
                    r = r * self
                return r
            return ONE / (self ** (-e))
        raise Unsupported(f'power {k}')

    def __rpow__(self, base):
        raise Unsupported('symbolic exponent')

    # ---- comparisons
    def _cmp(self, o, op):
        try:
            o = R.lift(o)
        except TypeError:
            return NotImplemented
        if self.tag == 'nan' or o.tag == 'nan':
            return B(op == 'ne')
        if self.tag or o.tag:
            a = self.sh if self.tag else None
            b = o.sh if o.tag else None
            if a is not None and b is not None:
                return B(_PYOPS[op](a, b))
            # one infinite, other finite (symbolic or not)
            if a is not None:
                return B(_PYOPS[op](a, 0.0))
            return B(_PYOPS[op](0.0, b))
        if self.c is not None and o.c is not None:
            return B(_PYOPS[op](self.c, o.c))
        sh = None if self.sh is None or o.sh is None else _PYOPS[op](self.sh, o.sh)
        # sqrt(t) compared with 0 is a statement about t (keeps the algebraic atom out of branch conditions)
        if o.c is not None and o.c == 0 and not self.d and self._n is not None and self._n.get_id() in C.sqrt_args:
            arg = C.sqrt_args[self._n.get_id()]
            if op == 'ge':
                return B(True)
            if op == 'lt':
                return B(False)
            return arg._cmp(ZERO, {'gt': 'gt', 'le': 'le', 'eq': 'eq', 'ne': 'ne'}[op])
        if self.c is not None and self.c == 0 and not o.d and o._n is not None and o._n.get_id() in C.sqrt_args:
            return o._cmp(self, {'lt': 'gt', 'le': 'ge', 'gt': 'lt', 'ge': 'le', 'eq': 'eq', 'ne': 'ne'}[op])
        return B(_Z3OPS[op](self.t, o.t), sh)

    def __lt__(self, o): return self._cmp(o, 'lt')
    def __le__(self, o): return self._cmp(o, 'le')
    def __gt__(self, o): return self._cmp(o, 'gt')
    def __ge__(self, o): return self._cmp(o, 'ge')
    def __eq__(self, o): return self._cmp(o, 'eq')
    def __ne__(self, o): return self._cmp(o, 'ne')
    def __hash__(self):
        # constants may end up as descriptor values (e.g. binned time points)
        if self.tag is None and self.c is not None:
            return hash(self.c)
        raise TypeError('unhashable symbolic real')

    def __bool__(self):
        return bool(self != 0)

    def __float__(self):
        if self.tag:
            return self.sh
        if self.c is not None:
            return float(self.c)
        if self.closed:
            return self.sh
        raise Unsupported('concretisation (float) of a symbolic real')

    def __int__(self):
        if self.c is not None and self.tag is None:
            return int(self.c)
        if self.tag or self.closed:
            raise Unsupported('concretisation (int) of a symbolic real')
        # truncation toward zero of a symbolic real: fork over the integer classes |k| <= 64 (infeasible classes are
        # pruned by the branch feasibility queries); anything beyond is Unsupported
        guess = int(self.sh) if self.sh is not None and self.sh == self.sh and abs(self.sh) < 64 else 0
        for k in sorted(range(-64, 65), key=lambda k: (abs(k - guess), k)):
            if k > 0:
                cond = (self >= k) & (self < k + 1)
            elif k < 0:
                cond = (self > k - 1) & (self <= k)
            else:
                cond = (self > -1) & (self < 1)
            if bool(cond):
                return k
        raise Unsupported('concretisation (int) of a symbolic real outside [-64, 64]')

    __index__ = None

    def __repr__(self):
        if self.tag:
            return self.tag
        if self.c is not None:
            return f'R({self.c})'
        s = str(z3.simplify(self.t)) if C.symbolic else '?'
        return f'R({s[:80]})'

    # ---- atoms
    def sqrt(self):
        if self.tag:
            return self if self.tag != '-inf' else NAN
        if self.c is not None:
            if self.c < 0:
                return NAN
            r = _isqrt_frac(self.c)
            if r is not None:
                return R(c=r)
        return make_atom('sqrt', self)

    def log(self):
        if self.tag:
            return self if self.tag != '-inf' else NAN
        if self.c is not None:
            if self.c == 1:
                return ZERO
            if self.c < 0:
                return NAN
            if self.c == 0:
                return NINF
        return make_atom('log', self)

    def exp(self):
        if self.tag:
            return {'nan': NAN, 'inf': PINF, '-inf': ZERO}[self.tag]
        if self.c is not None and self.c == 0:
            return ONE
        return make_atom('exp', self)

    # numpy scalar look-alike attributes (np.float64 has them; library code asks e.g. variances.ndim)
    ndim = 0
    shape = ()
    size = 1

    # numpy calls these names for object arrays
    def conjugate(self):
        return self

    def item(self):
        return self


_PYOPS = dict(lt=lambda a, b: a < b, le=lambda a, b: a <= b, gt=lambda a, b: a > b,
              ge=lambda a, b: a >= b, eq=lambda a, b: a == b, ne=lambda a, b: a != b)
_Z3OPS = _PYOPS

NAN = R(c=Fraction(0), tag='nan')
PINF = R(c=Fraction(0), tag='inf')
NINF = R(c=Fraction(0), tag='-inf')
ZERO = R(c=Fraction(0))
ONE = R(c=Fraction(1))


def _den_mul(d1, d2):
    if not d2:
        return d1
    if not d1:
        return d2
    out = dict(d1)
    for k, (t, p) in d2.items():
        out[k] = (t, out[k][1] + p) if k in out else (t, p)
    return out


def _sqrt_reduce(n, d, sh):
    """even powers of a sqrt atom in the denominator are replaced by its argument:
    1/s^2 = 1/t  (keeps code-side and oracle-side forms free of needless algebraic atoms)"""
    if not d or not C.sqrt_args:
        return R(n=n, d=d, sh=sh)
    hit = [k for k, (t, p) in d.items() if p >= 2 and k in C.sqrt_args]
    if not hit:
        return R(n=n, d=d, sh=sh)
    d = dict(d)
    for k in hit:
        t, p = d.pop(k)
        q, r = divmod(p, 2)
        if r:
            d[k] = (t, r)
        arg = C.sqrt_args[k]
        for _ in range(q):
            # 1/arg = den(arg)/arg.n
            if arg.c is not None:
                n = n * _rv(1 / arg.c)
                continue
            if arg.d:
                n = n * _den_term(arg.d)
            an = arg.n
            C.nonzero.setdefault(an.get_id(), an)
            d = _den_mul(d, {an.get_id(): (an, 1)})
    return R(n=n, d=d, sh=sh)


def _den_lcm(d1, d2):
    out = dict(d1)
    for k, (t, p) in d2.items():
        out[k] = (t, max(out[k][1], p)) if k in out else (t, p)
    return out


def _den_term(d):
    r = None
    for t, p in d.values():
        for _ in range(p):
            r = t if r is None else r * t
    return z3.RealVal(1) if r is None else r


def _den_quot(big, small):
    r = None
    for k, (t, p) in big.items():
        q = p - (small[k][1] if k in small else 0)
        for _ in range(q):
            r = t if r is None else r * t
    return r


def ite(c, a, b):
    c = B.lift(c) if not isinstance(c, B) else c
    a, b = R.lift(a), R.lift(b)
    if c.concrete:
        return a if c.t else b
    if a.tag or b.tag:
        raise Unsupported('ite with nan/inf under a symbolic condition')
    sh = None
    if c.sh is not None:
        sh = a.sh if c.sh else b.sh
    if _simple_bound(c.t):
        # a bare variable compared with a numeral: the recorded range assumptions of that variable often decide it
        # (e.g. np.maximum(w, 0) for an optimiser weight assumed to lie in [0, 1]) and spare the solver an ite
        try:
            rel = relevant([c.t], with_defs=False)
            if check(rel + [c.t], timeout=500) == 'unsat':
                return b
            if check(rel + [z3.Not(c.t)], timeout=500) == 'unsat':
                return a
        except Exception:
            pass
    return R(n=z3.If(c.t, a.t, b.t), sh=sh)


def _simple_bound(t):
    try:
        t = z3.simplify(t)
        if z3.is_not(t):
            t = t.arg(0)
        if t.num_args() != 2 or t.decl().kind() not in (z3.Z3_OP_LT, z3.Z3_OP_LE, z3.Z3_OP_GT, z3.Z3_OP_GE):
            return False
        x, y = t.arg(0), t.arg(1)
        isvar = lambda e: z3.is_const(e) and e.decl().kind() == z3.Z3_OP_UNINTERPRETED
        return (isvar(x) and z3.is_rational_value(y)) or (isvar(y) and z3.is_rational_value(x))
    except Exception:
        return False


# --------------------------------------------------------------------------- atoms

_SH_FUN = {
    'sqrt': lambda x: math.sqrt(x) if x >= 0 else math.nan,
    'log': lambda x: math.log(x) if x > 0 else math.nan,
    'exp': lambda x: math.exp(x) if x < 700 else math.inf,
}
ATOM_DEFS = {
    # kind -> function (atom term a, arg R) -> z3 constraint or None
    'sqrt': lambda a, arg: z3.And(a >= 0, (a * a * _den_term(arg.d) == arg.n) if arg.d else (a * a == arg.n)),
    'log': lambda a, arg: None,
    'exp': lambda a, arg: a > 0,
}


def register_atom_kind(kind, shadow_fun, def_fun=None):
    _SH_FUN[kind] = shadow_fun
    ATOM_DEFS[kind] = def_fun or (lambda a, arg: None)


def _close(x, y):
    if x is None or y is None:
        return True
    if x != x or y != y:
        return (x != x) and (y != y)
    return abs(x - y) <= 1e-9 * max(1.0, abs(x), abs(y))


def prove_equal_terms(a, b):
    """solver-proved equality of two R (used for atom merging); atoms free"""
    if a.c is not None and b.c is not None:
        return a.c == b.c
    lhs, rhs = _cross(a, b)
    if lhs.get_id() == rhs.get_id():
        return True
    rel = relevant([lhs, rhs], with_defs=False)
    if check(rel + [lhs != rhs], timeout=10000) == 'unsat':
        return True
    pc = C.pc()      # equality on this path suffices (atoms are per path)
    rel = relevant(pc + [lhs, rhs], with_defs=True)
    return check(pc + rel + [lhs != rhs], timeout=10000) == 'unsat'


def _cross(a, b):
    """a == b  <=>  a.n * den(b) == b.n * den(a)   (denominators assumed non-zero)"""
    if not a.d and not b.d:
        return a.n, b.n
    l = _den_lcm(a.d, b.d)
    qa = _den_quot(l, a.d)
    qb = _den_quot(l, b.d)
    return (a.n if qa is None else a.n * qa), (b.n if qb is None else b.n * qb)


def make_atom(kind, arg):
    shf = _SH_FUN[kind]
    sh = None
    if arg.sh is not None:
        try:
            sh = shf(arg.sh)
        except (ValueError, OverflowError):
            sh = math.nan
    for k2, arg2, atom in C.atoms:
        if k2 == kind and _close(arg.sh, arg2.sh) and prove_equal_terms(arg, arg2):
            C.stats['merged'] += 1
            return atom
    C.n += 1
    a = z3.Real(f'{kind}!{C.n}')
    atom = R(n=a, sh=sh)
    atom.closed = arg.c is not None
    if atom.closed:
        C.closed_ids.add(a.get_id())
    if kind == 'sqrt':
        C.sqrt_args[a.get_id()] = arg
        if C.assume_pos_sqrt and arg.c is None:
            # harness-declared domain restriction (DESIGN 3.3): every norm / variance the code takes a square
            # root of is positive.  Recorded as an assumption; branch conditions that literally are this
            # assumption (or its negation) are then decided without the solver.
            if arg.sh is not None and not arg.sh > 0:
                raise Infeasible('shadow point violates the positive-norm assumption')
            tpos = arg.t > 0
            C.assume.append(tpos)
            for term, val in ((tpos, True), (arg.t <= 0, False), (arg.t == 0, False), (arg.t != 0, True)):
                st = z3.simplify(term)
                C.assumed_keep.append(st)        # keep the AST alive: z3 reuses ids of collected terms
                C.assumed_ids[st.get_id()] = val
    C.atoms.append((kind, arg, atom))
    C.stats['atoms'] += 1
    d = ATOM_DEFS[kind](a, arg)
    if d is not None:
        C.defs[a.get_id()] = d
    else:
        C.defs[a.get_id()] = z3.BoolVal(True) if not vars_of(arg.n) else _link(a, arg)
    return atom


def _link(a, arg):
    """a definition-less atom still has to pull its argument's variables and atoms into the cone of influence
    (so that axioms about the uninterpreted function, which mention the argument, are picked up)"""
    t = arg.t
    return z3.And(a == a, t == t)


def fresh_real(prefix, sh=None):
    C.n += 1
    return R(n=z3.Real(f'{prefix}!{C.n}'), sh=sh)


# --------------------------------------------------------------------------- queries

def is_closed(r):
    """a constant expression: no input variables, only atoms of constant arguments"""
    if r.c is not None:
        return True
    return all(i in C.closed_ids for i in vars_of(r.t))


APPROX_TOL = Fraction(1, 10**9)


def prove_eq(a, b, extra=(), approx=False):
    """('unsat'|'sat'|'unknown', model) for the negated goal  a != b  under the path
    condition, non-zero assumptions and atom definitions.  approx: `a` is a float computed
    by real numpy on a concrete path; equality is then up to 1e-9 (floats are not reals)."""
    a, b = R.lift(a), R.lift(b)
    if a.tag or b.tag:
        return ('unsat' if a.tag == b.tag else 'sat'), None
    if a.c is not None and b.c is not None:
        if a.c == b.c:
            return 'unsat', None
        # constants that came out of float arithmetic on a concrete path (binary fractions with huge denominators)
        # are compared up to 1e-9: floats are not reals
        floaty = a.c.denominator > 10**6 or b.c.denominator > 10**6
        if approx or floaty:
            return ('unsat' if abs(a.c - b.c) <= APPROX_TOL * max(1, abs(b.c)) else 'sat'), None
        return 'sat', None
    if (a.c is not None and is_closed(b)) or (approx and a.c is not None):
        # float result of a concrete path vs. exact closed-form value: compare up to tolerance
        tol = _rv(APPROX_TOL * max(1, abs(a.c)))
        pc0 = C.pc() + list(extra)
        goal0 = z3.Or(a.t - b.t > tol, b.t - a.t > tol)
        return check(pc0 + relevant(pc0 + [goal0]) + [goal0], want_model=True)
    lhs, rhs = _cross(a, b)
    if lhs.get_id() == rhs.get_id():
        C.stats['syntactic'] = C.stats.get('syntactic', 0) + 1
        return 'unsat', None        # syntactically identical terms (z3 hash-consing)
    pc = C.pc() + list(extra)
    goal = lhs != rhs
    # 1. atoms free (strongest statement, cheapest query)
    if check(pc + relevant(pc + [goal], with_defs=False) + [goal]) == 'unsat':
        return 'unsat', None
    r, m = check(pc + relevant(pc + [goal], with_defs=True) + [goal], want_model=True)
    return r, m


def prove(cond, extra=()):
    """prove a symbolic boolean under the path condition"""
    cond = B.lift(cond) if not isinstance(cond, B) else cond
    if cond.concrete:
        return ('unsat' if cond.t else 'sat'), None
    pc = C.pc() + list(extra)
    goal = z3.Not(cond.t)
    r, m = check(pc + relevant(pc + [goal]) + [goal], want_model=True)
    return r, m


def model_value(m, v):
    x = m.eval(v, model_completion=True)
    if z3.is_rational_value(x):
        return float(x.as_fraction())
    if z3.is_algebraic_value(x):
        return float(x.approx(20).as_fraction())
    try:
        return float(x.as_fraction())
    except Exception:
        return 0.0
