"""symx.strings -- symbolic strings for the name parsers (DESIGN.md 4/C20).

A symbolic string ``SS`` is a sequence of pieces: python literals and *atoms* (z3 String constants constrained to a
value grammar, by default the BIDS label grammar [A-Za-z0-9]+).  Every predicate (==, startswith, in, ...) is a z3
string formula over the concatenation and is decided by ``core.decide`` (unsat side => definite answer, both sides
satisfiable => fork); structural operations (split, replace, slicing) act on the pieces after z3 has excluded that an
atom can contain / overlap the separator."""
import ast
import z3

from . import core
from .core import C, Unsupported

ALNUM = z3.Plus(z3.Union(z3.Range('a', 'z'), z3.Range('A', 'Z'), z3.Range('0', '9')))


_MEMO = {}


def _static(cond):
    """facts that follow from the value grammar alone (independent of the path): decided once per process by z3
    and memoised by the formula text.  unsat under the grammar constraints stays unsat under any path condition."""
    key = cond.sexpr()
    if key in _MEMO:
        return _MEMO[key]
    defs = core.relevant([cond])
    res = None
    if core.check(defs + [cond], timeout=30000) == 'unsat':
        res = False
    elif core.check(defs + [z3.Not(cond)], timeout=30000) == 'unsat':
        res = True
    _MEMO[key] = res
    return res


class Atom:
    def __init__(self, name, shadow, grammar=ALNUM):
        self.name = name
        self.z = z3.String(name)
        self.sh = shadow
        C.defs[self.z.get_id()] = z3.InRe(self.z, grammar)
        C.str_keep.append(self.z)

    def __repr__(self):
        return f'<{self.name}>'


def _norm(pieces):
    out = []
    for p in pieces:
        if isinstance(p, str):
            if p == '':
                continue
            if out and isinstance(out[-1], str):
                out[-1] += p
            else:
                out.append(p)
        else:
            out.append(p)
    return out


class SS:
    def __init__(self, pieces):
        self.p = _norm(pieces)

    @staticmethod
    def lift(x):
        if isinstance(x, SS):
            return x
        if isinstance(x, str):
            return SS([x])
        raise TypeError(type(x))

    @property
    def z(self):
        if not self.p:
            return z3.StringVal('')
        parts = [z3.StringVal(x) if isinstance(x, str) else x.z for x in self.p]
        return parts[0] if len(parts) == 1 else z3.Concat(*parts)

    @property
    def sh(self):
        return ''.join(x if isinstance(x, str) else x.sh for x in self.p)

    @property
    def concrete(self):
        return all(isinstance(x, str) for x in self.p)

    def _decide(self, cond, sh):
        st = _static(cond)
        if st is not None:
            return st
        return core.decide(cond, sh)

    def __eq__(self, o):
        if o is None:
            return False
        if not isinstance(o, (str, SS)):
            return NotImplemented
        o = SS.lift(o)
        if self.concrete and o.concrete:
            return self.sh == o.sh
        if self.p == o.p:
            return True
        return self._decide(self.z == o.z, self.sh == o.sh)

    def __ne__(self, o):
        r = self.__eq__(o)
        return r if r is NotImplemented else not r

    def __hash__(self):
        raise TypeError('unhashable symbolic string')

    def __bool__(self):
        # non-empty?  atoms are non-empty by grammar
        return any(not isinstance(x, str) or x for x in self.p)

    def __add__(self, o):
        return SS(self.p + SS.lift(o).p)

    def __radd__(self, o):
        return SS(SS.lift(o).p + self.p)

    def __repr__(self):
        return 'SS(' + ''.join(x if isinstance(x, str) else repr(x) for x in self.p) + ')'

    def startswith(self, lit):
        lit = SS.lift(lit)
        if self.concrete and lit.concrete:
            return self.sh.startswith(lit.sh)
        if self.p and lit.concrete and isinstance(self.p[0], str) and len(self.p[0]) >= len(lit.sh):
            return self.p[0].startswith(lit.sh)
        return self._decide(z3.PrefixOf(lit.z, self.z), self.sh.startswith(lit.sh))

    def endswith(self, lit):
        lit = SS.lift(lit)
        if self.p and lit.concrete and isinstance(self.p[-1], str) and len(self.p[-1]) >= len(lit.sh):
            return self.p[-1].endswith(lit.sh)
        return self._decide(z3.SuffixOf(lit.z, self.z), self.sh.endswith(lit.sh))

    def __contains__(self, lit):
        lit = SS.lift(lit)
        if self.concrete and lit.concrete:
            return lit.sh in self.sh
        return self._decide(z3.Contains(self.z, lit.z), lit.sh in self.sh)

    def _atom_free_of(self, atom, sep):
        """z3 must exclude that the atom contains the separator"""
        if self._decide(z3.Contains(atom.z, z3.StringVal(sep)), sep in atom.sh):
            raise Unsupported(f'atom {atom} may contain separator {sep!r}')

    def split(self, sep):
        if not isinstance(sep, str) or len(sep) != 1:
            raise Unsupported('split on a non-literal / multi-character separator')
        parts = [[]]
        for piece in self.p:
            if isinstance(piece, str):
                segs = piece.split(sep)
                parts[-1].append(segs[0])
                for s in segs[1:]:
                    parts.append([s])
            else:
                self._atom_free_of(piece, sep)
                parts[-1].append(piece)
        return [SS(x) for x in parts]

    def replace(self, old, new):
        if not isinstance(old, str) or not isinstance(new, str):
            raise Unsupported('replace with symbolic pattern')
        if self.concrete:
            return SS([self.sh.replace(old, new)])

        def may_contain(ss):
            if ss.concrete:
                return old in ss.sh
            return ss._decide(z3.Contains(ss.z, z3.StringVal(old)), old in ss.sh)
        if self.p and isinstance(self.p[0], str) and self.p[0].startswith(old):
            rest = SS([self.p[0][len(old):]] + self.p[1:])
            if not may_contain(rest):
                return SS([new] + rest.p)
        elif not may_contain(self):
            return self
        raise Unsupported(f'replace({old!r}) with occurrences that z3 cannot localise')

    def __getitem__(self, key):
        if isinstance(key, slice) and key.step is None and key.stop is None and isinstance(key.start, int) and key.start >= 0:
            k = key.start
            if not self.p:
                return SS([])
            if isinstance(self.p[0], str) and len(self.p[0]) >= k:
                return SS([self.p[0][k:]] + self.p[1:])
        if self.concrete:
            return SS([self.sh[key]])
        raise Unsupported(f'slice {key} of a symbolic string')

    def isdigit(self):
        if self.concrete:
            return self.sh.isdigit()
        digits = z3.Plus(z3.Range('0', '9'))
        return self._decide(z3.InRe(self.z, digits), self.sh.isdigit())

    def __format__(self, spec):
        raise Unsupported('formatting a symbolic string outside a transformed f-string')

    def __str__(self):
        raise Unsupported('str() of a symbolic string')


def fjoin(parts):
    """transformed f-string"""
    out = []
    for x in parts:
        if isinstance(x, SS):
            out += x.p
        elif x is None:
            out.append('None')
        else:
            out.append(str(x))
    r = SS(out)
    return r.sh if r.concrete else r


def sjoin(sep, items):
    items = list(items)
    out = []
    for i, x in enumerate(items):
        if i:
            out.append(sep)
        out += SS.lift(x).p if isinstance(x, (str, SS)) else [str(x)]
    r = SS(out)
    return r.sh if r.concrete else r


# ---- POSIX os.path models
def p_normpath(x):
    x = SS.lift(x)
    if x.concrete:
        import posixpath
        return posixpath.normpath(x.sh)
    for piece in x.p:
        if isinstance(piece, str) and ('//' in piece or '/./' in piece or '..' in piece or piece.startswith('./')):
            raise Unsupported('normpath on a non-normal symbolic path')
    if isinstance(x.p[-1], str) and x.p[-1].endswith('/'):
        raise Unsupported('normpath: trailing slash')
    return x


def p_basename(x):
    x = SS.lift(x)
    if x.concrete:
        import posixpath
        return posixpath.basename(x.sh)
    return x.split('/')[-1]


def p_join(*parts):
    parts = [SS.lift(p) for p in parts]
    for p in parts[1:]:
        if p.p and isinstance(p.p[0], str) and p.p[0].startswith('/'):
            raise Unsupported('join with an absolute component')
    out = []
    for i, p in enumerate(parts):
        if i and out and not (isinstance(out[-1], str) and out[-1].endswith('/')):
            out.append('/')
        out += p.p
    r = SS(out)
    return r.sh if r.concrete else r


class _OsShim:
    sep = '/'

    class path:
        join = staticmethod(p_join)
        normpath = staticmethod(p_normpath)
        basename = staticmethod(p_basename)


class _FStr(ast.NodeTransformer):
    def visit_JoinedStr(self, node):
        self.generic_visit(node)
        elts = []
        for v in node.values:
            if isinstance(v, ast.Constant):
                elts.append(v)
            elif isinstance(v, ast.FormattedValue):
                if v.format_spec is not None or v.conversion != -1:
                    raise Unsupported('f-string with format spec')
                elts.append(v.value)
        return ast.copy_location(ast.Call(func=ast.Name(id='_symx_fjoin', ctx=ast.Load()),
                                          args=[ast.List(elts=elts, ctx=ast.Load())], keywords=[]), node)

    def visit_Call(self, node):
        self.generic_visit(node)
        f = node.func
        if isinstance(f, ast.Attribute) and f.attr == 'join' and isinstance(f.value, ast.Constant) \
                and isinstance(f.value.value, str) and len(node.args) == 1:
            return ast.copy_location(ast.Call(func=ast.Name(id='_symx_sjoin', ctx=ast.Load()),
                                              args=[f.value, node.args[0]], keywords=[]), node)
        return node


def load_transformed(path, modname, overrides=None):
    """re-compile a module from the working tree with f-strings and 'sep'.join rerouted; nothing is cached"""
    import types
    src = open(path).read()
    tree = _FStr().visit(ast.parse(src, filename=path))
    ast.fix_missing_locations(tree)
    mod = types.ModuleType(modname)
    mod.__file__ = path
    mod.__dict__['_symx_fjoin'] = fjoin
    mod.__dict__['_symx_sjoin'] = sjoin
    exec(compile(tree, path, 'exec'), mod.__dict__)
    mod.__dict__.update(dict(os=_OsShim, join=p_join, normpath=p_normpath, basename=p_basename))
    if overrides:
        mod.__dict__.update(overrides)
    return mod
