"""symx.arrays -- numpy object arrays of R/B, and models of the numpy functions that
object arrays do not support (DESIGN.md 2.2)."""
import functools
import math
from fractions import Fraction

import numpy as real_np

from .core import R, B, NAN, ZERO, ONE, ite, Unsupported, C, choose, PINF, NINF

np = real_np


def is_obj(a):
    return isinstance(a, real_np.ndarray) and a.dtype == object


def has_sym(x):
    """does x (scalar / array / nested list) contain engine scalars?"""
    if isinstance(x, (R, B)):
        return True
    if isinstance(x, real_np.ndarray):
        return x.dtype == object and x.size > 0 and any(isinstance(v, (R, B)) for v in x.flat)
    if isinstance(x, (list, tuple)):
        return any(has_sym(v) for v in x)
    return False


def wrap(a):
    """numeric array -> SymArray of constants; object arrays are normalised so that
    every element is R or B (numpy itself writes plain floats into object arrays)."""
    if isinstance(a, (R, B)):
        return a
    a = real_np.asarray(a)
    if a.dtype == object:
        out = a if isinstance(a, SymArray) else a.view(SymArray)
        flat = out.reshape(-1) if out.flags['C_CONTIGUOUS'] else None
        it = out.flat
        for i, v in enumerate(it):
            if not isinstance(v, (R, B)):
                out.flat[i] = R.lift(v)
        return out
    if a.dtype == bool:
        return a
    out = real_np.empty(a.shape, dtype=object)
    of = out.reshape(-1)
    for i, v in enumerate(a.reshape(-1)):
        of[i] = R.lift(v)
    return out.view(SymArray)


def normalise(r):
    """post-process results of real numpy calls"""
    if isinstance(r, real_np.ndarray) and r.dtype == object:
        if r.size and any(isinstance(v, (R, B)) for v in r.flat):
            return wrap(r)
        if r.size == 0:
            return r.view(SymArray)
        if all(isinstance(v, (float, int, real_np.number)) for v in r.flat):
            return wrap(r)
    elif isinstance(r, tuple):
        return tuple(normalise(x) for x in r)
    return r


def sym_array(shape, prefix, positive=False):
    a = real_np.empty(shape, dtype=object)
    for idx in real_np.ndindex(*a.shape):
        name = prefix + '_' + '_'.join(map(str, idx))
        a[idx] = R.var(name, lo=0.3 if positive else -2.0, hi=3.0 if positive else 2.0)
    return a.view(SymArray)


def _elem(f, *arrs, out_bool=False):
    arrs = real_np.broadcast_arrays(*[real_np.asarray(a, dtype=object) if not isinstance(a, real_np.ndarray)
                                      else a for a in arrs])
    out = real_np.empty(arrs[0].shape, dtype=object)
    for idx in real_np.ndindex(*out.shape):
        out[idx] = f(*[a[idx] for a in arrs])
    if not out.shape:
        return out[()]
    return out.view(SymArray)


def _concretise_bools(arr):
    """object array of B -> real bool array if every element is concrete"""
    if isinstance(arr, B):
        return arr.t if arr.concrete else arr
    if arr.size == 0 or all(isinstance(v, B) and v.concrete for v in arr.flat):
        out = real_np.empty(arr.shape, dtype=bool)
        for idx in real_np.ndindex(*arr.shape):
            out[idx] = arr[idx].t
        return out
    return arr.view(SymBoolArray) if isinstance(arr, real_np.ndarray) else arr


def force_bool_array(arr):
    """fork until every element is decided"""
    if isinstance(arr, B):
        return bool(arr)
    arr = real_np.asarray(arr)
    if arr.dtype != object:
        return arr.astype(bool)
    out = real_np.empty(arr.shape, dtype=bool)
    for idx in real_np.ndindex(*arr.shape):
        out[idx] = bool(arr[idx])
    return out


UFUNCS = {}


def ufunc(*names):
    def deco(f):
        for n in names:
            UFUNCS[n] = f
        return f
    return deco


@ufunc('isnan')
def _isnan(x):
    if isinstance(x, R):
        return x.tag == 'nan'
    x = real_np.asarray(x)
    if x.dtype != object:
        return real_np.isnan(x)
    out = real_np.empty(x.shape, dtype=bool)
    for idx in real_np.ndindex(*x.shape):
        v = x[idx]
        out[idx] = (v.tag == 'nan') if isinstance(v, R) else (v != v)
    return out if out.shape else bool(out[()])


@ufunc('isfinite')
def _isfinite(x):
    if isinstance(x, R):
        return x.tag is None
    x = real_np.asarray(x)
    if x.dtype != object:
        return real_np.isfinite(x)
    out = real_np.empty(x.shape, dtype=bool)
    for idx in real_np.ndindex(*x.shape):
        v = x[idx]
        out[idx] = (v.tag is None) if isinstance(v, R) else bool(real_np.isfinite(v))
    return out if out.shape else bool(out[()])


@ufunc('isinf')
def _isinf(x):
    if isinstance(x, R):
        return x.tag in ('inf', '-inf')
    x = real_np.asarray(x)
    if x.dtype != object:
        return real_np.isinf(x)
    out = real_np.empty(x.shape, dtype=bool)
    for idx in real_np.ndindex(*x.shape):
        v = x[idx]
        out[idx] = (v.tag in ('inf', '-inf')) if isinstance(v, R) else bool(real_np.isinf(v))
    return out if out.shape else bool(out[()])


def _max2(x, y):
    x, y = R.lift(x), R.lift(y)
    if x.tag == 'nan' or y.tag == 'nan':
        return NAN
    return ite(x >= y, x, y)


def _min2(x, y):
    x, y = R.lift(x), R.lift(y)
    if x.tag == 'nan' or y.tag == 'nan':
        return NAN
    return ite(x <= y, x, y)


def _fmax2(x, y):
    x, y = R.lift(x), R.lift(y)
    if x.tag == 'nan':
        return y
    if y.tag == 'nan':
        return x
    return ite(x >= y, x, y)


def _fmin2(x, y):
    x, y = R.lift(x), R.lift(y)
    if x.tag == 'nan':
        return y
    if y.tag == 'nan':
        return x
    return ite(x <= y, x, y)


@ufunc('maximum')
def _maximum(a, b):
    return _elem(_max2, a, b)


@ufunc('minimum')
def _minimum(a, b):
    return _elem(_min2, a, b)


@ufunc('fmax')
def _fmaximum(a, b):
    return _elem(_fmax2, a, b)


@ufunc('fmin')
def _fminimum(a, b):
    return _elem(_fmin2, a, b)


@ufunc('absolute', 'fabs')
def _abs(a):
    return _elem(lambda x: abs(R.lift(x)), a)


@ufunc('sign')
def _sign(a):
    def s(x):
        x = R.lift(x)
        if x.tag == 'nan':
            return NAN
        return ite(x > 0, ONE, ite(x < 0, -ONE, ZERO))
    return _elem(s, a)


@ufunc('square')
def _square(a):
    return _elem(lambda x: R.lift(x) * R.lift(x), a)


@ufunc('sqrt')
def _sqrt(a):
    return _elem(lambda x: R.lift(x).sqrt(), a)


@ufunc('log')
def _log(a):
    return _elem(lambda x: R.lift(x).log(), a)


@ufunc('exp')
def _exp(a):
    return _elem(lambda x: R.lift(x).exp(), a)


@ufunc('reciprocal')
def _recip(a):
    return _elem(lambda x: ONE / R.lift(x), a)


@ufunc('power')
def _power(a, b):
    return _elem(lambda x, y: R.lift(x) ** (y if not isinstance(y, R) else y), a, b)


@ufunc('float_power')
def _fpower(a, b):
    return _power(a, b)


def _cmpuf(op):
    def f(a, b):
        def g(x, y):
            if isinstance(x, B) or isinstance(y, B):
                return getattr(B.lift(x), op)(B.lift(y))
            return getattr(R.lift(x), op)(R.lift(y))
        r = _elem(g, a, b)
        return _concretise_bools(r)
    return f


for _n, _op in [('less', '__lt__'), ('less_equal', '__le__'), ('greater', '__gt__'),
                ('greater_equal', '__ge__'), ('equal', '__eq__'), ('not_equal', '__ne__')]:
    UFUNCS[_n] = _cmpuf(_op)


@ufunc('logical_not', 'invert')
def _lnot(a):
    return _concretise_bools(_elem(lambda x: ~B.lift(x), a))


@ufunc('logical_and', 'bitwise_and')
def _land(a, b):
    return _concretise_bools(_elem(lambda x, y: B.lift(x) & B.lift(y), a, b))


@ufunc('logical_or', 'bitwise_or')
def _lor(a, b):
    return _concretise_bools(_elem(lambda x, y: B.lift(x) | B.lift(y), a, b))


def _promote(i):
    """numeric ndarrays / scalars -> object arrays of R so that object loops apply"""
    if isinstance(i, real_np.ndarray):
        if i.dtype == object:
            return i.view(real_np.ndarray)
        if i.dtype == bool:
            return i
        return wrap(i).view(real_np.ndarray)
    if isinstance(i, (float, real_np.floating)):
        return R.lift(i)
    if isinstance(i, (list, tuple)):
        return _promote(real_np.asarray(i))
    return i


class SymArray(real_np.ndarray):
    """dtype=object ndarray holding R (or B) elements"""

    def __array_ufunc__(self, uf, method, *inputs, out=None, **kw):
        name = uf.__name__
        if method == 'at':
            a = inputs[0].view(real_np.ndarray)
            rest = [_promote(x) for x in inputs[2:]]
            if a.dtype != object:
                raise Unsupported('ufunc.at writing symbolic values into a numeric array')
            uf.at(a, inputs[1], *rest)
            return None
        if method == 'reduceat':
            res = uf.reduceat(_promote(inputs[0]), inputs[1], **kw)
            return res.view(SymArray) if isinstance(res, real_np.ndarray) and res.dtype == object else res
        ins = [_promote(i) for i in inputs]
        if method == '__call__' and name in UFUNCS:
            res = UFUNCS[name](*ins)
            if out is not None:
                o = out[0]
                o.view(real_np.ndarray)[...] = res
                return o
            return res
        if method == 'reduce' and name in ('maximum', 'minimum', 'fmax', 'fmin', 'logical_and', 'logical_or'):
            return _reduce(name, ins[0], **kw)
        if out is not None:
            kw['out'] = tuple(o.view(real_np.ndarray) if isinstance(o, real_np.ndarray) else o for o in out)
        if name in ('true_divide', 'divide') and method == '__call__':
            # numpy's object loop calls __truediv__, fine; but int//0 style errors must not leak
            pass
        kw.pop('dtype', None) if kw.get('dtype') in (float, real_np.float64) else None
        res = getattr(uf, method)(*ins, **kw)
        if out is not None:
            return out[0] if len(out) == 1 else out
        if isinstance(res, real_np.ndarray) and res.dtype == object:
            res = res.view(SymArray)
        return res

    def astype(self, dtype, *a, **k):
        if dtype in (float, real_np.float64, 'float64', 'float', 'double', real_np.float32, object) or \
                getattr(dtype, '__name__', '') == '_Float64':
            return self.copy()
        if dtype in (bool, real_np.bool_):
            return force_bool_array(self != 0 if not any(isinstance(v, B) for v in self.flat) else self)
        if all(isinstance(v, R) and v.is_const for v in self.flat):
            return real_np.array([float(v) for v in self.flat]).reshape(self.shape).astype(dtype)
        raise Unsupported(f'astype({dtype}) of a symbolic array')

    def __setitem__(self, key, val):
        if is_symbool(key):
            return _masked_assign(self, key, val)
        if isinstance(val, real_np.ndarray):
            if val.dtype != object:
                val = wrap(val) if val.dtype != bool else val
        elif isinstance(val, (int, float, real_np.number)) and not isinstance(val, (bool, real_np.bool_)):
            val = R.lift(val)
        elif isinstance(val, (list, tuple)):
            val = wrap(real_np.asarray(val, dtype=object))
        super().__setitem__(key, val)

    def __getitem__(self, key):
        if is_symbool(key):
            key = force_bool_array(key)
        elif isinstance(key, tuple) and any(is_symbool(k) for k in key):
            key = tuple(force_bool_array(k) if is_symbool(k) else k for k in key)
        return super().__getitem__(key)

    def fill(self, v):
        super().fill(R.lift(v) if not isinstance(v, (R, B)) else v)

    def __float__(self):
        if self.size == 1:
            return float(self.reshape(-1)[0])
        raise TypeError('only size-1 arrays can be converted')

    def mean(self, axis=None, dtype=None, out=None, keepdims=False, **kw):
        s = real_np.add.reduce(self.view(real_np.ndarray), axis=axis, keepdims=keepdims)
        n = self.size if axis is None else (
            self.shape[axis] if isinstance(axis, int) else int(real_np.prod([self.shape[a] for a in axis])))
        if n == 0:
            return wrap(real_np.full(real_np.shape(s), real_np.nan)) if real_np.shape(s) else NAN
        r = s / n if isinstance(s, R) else (s * R.const(Fraction(1, n)))
        return r.view(SymArray) if isinstance(r, real_np.ndarray) else r

    def var(self, axis=None, ddof=0, keepdims=False, **kw):
        m = self.mean(axis=axis, keepdims=True)
        d = self - m
        s = real_np.add.reduce((d * d).view(real_np.ndarray), axis=axis, keepdims=keepdims)
        n = self.size if axis is None else self.shape[axis]
        r = s / (n - ddof)
        return r.view(SymArray) if isinstance(r, real_np.ndarray) else r

    def std(self, axis=None, ddof=0, keepdims=False, **kw):
        return real_np.sqrt(self.var(axis=axis, ddof=ddof, keepdims=keepdims))

    def max(self, axis=None, **kw):
        return _reduce('maximum', self, axis=axis, **kw)

    def min(self, axis=None, **kw):
        return _reduce('minimum', self, axis=axis, **kw)

    def all(self, axis=None, **kw):
        return _reduce('logical_and', self, axis=axis, **kw)

    def any(self, axis=None, **kw):
        return _reduce('logical_or', self, axis=axis, **kw)

    def argsort(self, axis=-1, kind=None, **kw):
        return argsort(self, axis=axis)

    def argmax(self, axis=None, **kw):
        return argmax(self, axis=axis)

    def argmin(self, axis=None, **kw):
        return argmax(-self, axis=axis)

    def sort(self, axis=-1, **kw):
        self[...] = sort(self, axis=axis)

    def round(self, *a, **k):
        raise Unsupported('round of symbolic array')

    def tolist(self):
        return super().tolist()


def _force_deep(x):
    if isinstance(x, SymBoolArray):
        return force_bool_array(x)
    if isinstance(x, (list, tuple)):
        return type(x)(_force_deep(v) for v in x)
    return x


_LOGICAL = ('logical_not', 'invert', 'logical_and', 'bitwise_and', 'logical_or', 'bitwise_or')


class SymBoolArray(SymArray):
    """object array of symbolic booleans produced by comparisons.  Logical operators,
    use as an assignment mask and np.where stay lazy (ite terms); every other numpy
    operation forces the elements (forking on each undecided one)."""

    def __array_ufunc__(self, uf, method, *inputs, out=None, **kw):
        name = uf.__name__
        if method == '__call__' and name in _LOGICAL and out is None:
            return UFUNCS[name](*[i.view(real_np.ndarray) if isinstance(i, real_np.ndarray) else i for i in inputs])
        ins = [_force_deep(i) for i in inputs]
        if out is not None:
            kw['out'] = out
        return getattr(uf, method)(*ins, **kw)

    def __array_function__(self, func, types, args, kwargs):
        return func(*_force_deep(args), **{k: _force_deep(v) for k, v in kwargs.items()})

    def _forced(self):
        return force_bool_array(self)

    def sum(self, *a, **k): return self._forced().sum(*a, **k)
    def cumsum(self, *a, **k): return self._forced().cumsum(*a, **k)
    def nonzero(self): return self._forced().nonzero()
    def astype(self, dtype, *a, **k): return self._forced().astype(dtype, *a, **k)
    def mean(self, *a, **k): return self._forced().mean(*a, **k)
    def tolist(self): return self._forced().tolist()

    def all(self, axis=None, **kw):
        return _reduce('logical_and', self.view(real_np.ndarray), axis=axis)

    def any(self, axis=None, **kw):
        return _reduce('logical_or', self.view(real_np.ndarray), axis=axis)

    def __bool__(self):
        if self.size == 1:
            return bool(self.reshape(-1).view(real_np.ndarray)[0])
        raise ValueError('The truth value of an array with more than one element is ambiguous.')


def is_symbool(k):
    return isinstance(k, real_np.ndarray) and k.dtype == object and k.size > 0 and \
        all(isinstance(v, B) for v in k.flat)


def _masked_assign(arr, mask, val):
    """arr[mask] = val with a symbolic mask -> element-wise ite (no fork); only for
    scalar values or arrays of the full shape (numpy semantics for a mask-shaped
    right-hand side need a concrete mask, then we fork)."""
    if real_np.ndim(val) == 0:
        val = R.lift(val if not isinstance(val, real_np.ndarray) else val[()])
        base = arr.view(real_np.ndarray)
        m = real_np.broadcast_to(mask.view(real_np.ndarray), arr.shape)
        for idx in real_np.ndindex(*arr.shape):
            base[idx] = ite(m[idx], val, base[idx])
        return
    cm = force_bool_array(mask)
    real_np.ndarray.__setitem__(arr, cm, wrap(real_np.asarray(val)))


def _reduce(name, a, axis=None, keepdims=False, **kw):
    a = real_np.asarray(a)
    f = {'maximum': _max2, 'minimum': _min2, 'fmax': _fmax2, 'fmin': _fmin2,
         'logical_and': lambda x, y: B.lift(x) & B.lift(y),
         'logical_or': lambda x, y: B.lift(x) | B.lift(y)}[name]
    if axis is None:
        items = list(a.flat)
        if not items:
            if name == 'logical_and':
                return True
            if name == 'logical_or':
                return False
            raise ValueError('zero-size array to reduction operation')
        r = functools.reduce(f, items)
        if isinstance(r, B) and r.concrete:
            return r.t
        if keepdims:
            out = real_np.empty((1,) * a.ndim, dtype=object)
            out[...] = r
            return out.view(SymArray)
        return r
    if isinstance(axis, tuple):
        raise Unsupported('tuple axis reduce')
    moved = real_np.moveaxis(a, axis, 0)
    out = real_np.empty(moved.shape[1:], dtype=object)
    for idx in real_np.ndindex(*out.shape):
        out[idx] = functools.reduce(f, [moved[(k,) + idx] for k in range(moved.shape[0])])
    if name.startswith('logical'):
        out = _concretise_bools(out)
    elif True:
        out = out.view(SymArray)
    if keepdims:
        out = real_np.expand_dims(out, axis)
    return out


# ---------------------------------------------------------------- forking orderings

def _cmp3(x, y):
    """three-way comparison by forking: -1, 0, 1"""
    x, y = R.lift(x), R.lift(y)
    if x.tag == 'nan' and y.tag == 'nan':
        return 0
    if x.tag == 'nan':
        return 1          # numpy sorts nan last
    if y.tag == 'nan':
        return -1
    if bool(x < y):
        return -1
    if bool(x == y):
        return 0
    return 1


def argsort1(vec, stable=True):
    idx = list(range(len(vec)))
    key = functools.cmp_to_key(lambda i, j: _cmp3(vec[i], vec[j]) or (i - j))
    return real_np.array(sorted(idx, key=key), dtype=int)


def argsort(a, axis=-1, **kw):
    a = real_np.asarray(a)
    if a.ndim == 1:
        return argsort1(list(a))
    moved = real_np.moveaxis(a, axis, -1)
    out = real_np.empty(moved.shape, dtype=int)
    for idx in real_np.ndindex(*moved.shape[:-1]):
        out[idx] = argsort1(list(moved[idx]))
    return real_np.moveaxis(out, -1, axis)


def sort(a, axis=-1, **kw):
    a = real_np.asarray(a)
    if axis is None:
        a = a.reshape(-1)
        axis = 0
    idx = argsort(a, axis=axis)
    return wrap(real_np.take_along_axis(a, idx, axis=axis))


def argmax(a, axis=None, **kw):
    a = real_np.asarray(a)
    if axis is None:
        items = list(a.flat)
        best = 0
        for i in range(1, len(items)):
            x, y = R.lift(items[i]), R.lift(items[best])
            if y.tag == 'nan':
                break
            if x.tag == 'nan' or bool(x > y):
                best = i
                if x.tag == 'nan':
                    break
        return best
    moved = real_np.moveaxis(a, axis, -1)
    out = real_np.empty(moved.shape[:-1], dtype=int)
    for idx in real_np.ndindex(*out.shape):
        out[idx] = argmax(moved[idx])
    return out


def rankdata(a, method='average', axis=None, nan_policy='propagate'):
    """model of scipy.stats.rankdata (forks on orderings)"""
    a = real_np.asarray(a)
    if axis is not None:
        moved = real_np.moveaxis(a, axis, -1)
        out = real_np.empty(moved.shape, dtype=object)
        for idx in real_np.ndindex(*moved.shape[:-1]):
            out[idx] = rankdata(moved[idx], method)
        return wrap(real_np.moveaxis(out, -1, axis))
    v = list(a.reshape(-1))
    n = len(v)
    if any(R.lift(x).tag == 'nan' for x in v):
        if nan_policy == 'propagate':
            return real_np.full(n, real_np.nan)
        if nan_policy == 'omit':
            keep = [i for i, x in enumerate(v) if R.lift(x).tag != 'nan']
            sub = rankdata(real_np.array([v[i] for i in keep], dtype=object), method) if keep else []
            out = real_np.full(n, real_np.nan)
            for i, r in zip(keep, sub):
                out[i] = r
            return out
        raise ValueError('The input contains nan values')
    order = argsort1(v)
    ranks = [None] * n
    i = 0
    dense = 0
    while i < n:
        j = i
        while j + 1 < n and _cmp3(v[order[j + 1]], v[order[i]]) == 0:
            j += 1
        dense += 1
        for k in range(i, j + 1):
            if method == 'average':
                r = Fraction(i + j + 2, 2)
            elif method == 'min':
                r = i + 1
            elif method == 'max':
                r = j + 1
            elif method == 'dense':
                r = dense
            elif method == 'ordinal':
                r = k + 1
            else:
                raise ValueError(f'unknown method "{method}"')
            ranks[order[k]] = r
        i = j + 1
    if method == 'average':
        return real_np.array([float(r) for r in ranks])
    return real_np.array([int(r) for r in ranks])


# ---------------------------------------------------------------- linear algebra

def inv(a):
    """fraction-form Gauss-Jordan; pivots recorded as non-zero assumptions.
    The pivot order follows the float shadow (largest |shadow| in the column)."""
    a = real_np.asarray(a)
    n = a.shape[0]
    M = [[R.lift(a[i, j]) for j in range(n)] + [ONE if i == j else ZERO for j in range(n)] for i in range(n)]
    for c in range(n):
        # choose a pivot row whose shadow is non-zero
        cand = [r for r in range(c, n) if not (M[r][c].is_const and M[r][c].c == 0)]
        if not cand:
            raise Unsupported('singular matrix in symbolic inverse')
        p = max(cand, key=lambda r: abs(M[r][c].sh) if M[r][c].sh is not None else 1.0)
        M[c], M[p] = M[p], M[c]
        piv = M[c][c]
        M[c] = [x / piv for x in M[c]]
        for r in range(n):
            if r != c:
                f = M[r][c]
                if f.is_const and f.c == 0:
                    continue
                M[r] = [x - f * y for x, y in zip(M[r], M[c])]
    out = real_np.empty((n, n), dtype=object)
    for i in range(n):
        for j in range(n):
            out[i, j] = M[i][n + j]
    return out.view(SymArray)


def solve(a, b):
    a = real_np.asarray(a)
    b = wrap(real_np.asarray(b))
    return wrap(inv(a) @ b)


def det(a):
    a = real_np.asarray(a)
    n = a.shape[0]
    if n == 1:
        return R.lift(a[0, 0])
    if n == 2:
        return R.lift(a[0, 0]) * a[1, 1] - R.lift(a[0, 1]) * a[1, 0]
    tot = ZERO
    for j in range(n):
        minor = real_np.delete(real_np.delete(a, 0, axis=0), j, axis=1)
        tot = tot + (R.lift(a[0, j]) * det(minor)) * (1 if j % 2 == 0 else -1)
    return tot


def cov(m, y=None, rowvar=True, bias=False, ddof=None, **kw):
    if y is not None or kw:
        raise Unsupported('np.cov options')
    m = real_np.asarray(m)
    if m.ndim == 1:
        m = m[None, :]
    if not rowvar and m.shape[0] != 1:
        m = m.T
    if ddof is None:
        ddof = 0 if bias else 1
    n = m.shape[1]
    fact = n - ddof
    ms = wrap(m)
    if n == 0:
        cmat = wrap(real_np.full((m.shape[0], m.shape[0]), real_np.nan))
    else:
        c = ms - ms.mean(axis=1, keepdims=True)
        cmat = c @ c.T
        if fact <= 0:
            # numpy: warns and divides by 0 -> nan/inf; model as nan (0/0) -- diag of squares may be inf
            cmat = wrap(real_np.full((m.shape[0], m.shape[0]), real_np.nan))
        else:
            cmat = cmat * R.const(Fraction(1, fact))
    if cmat.shape == (1, 1):
        out = real_np.empty((), dtype=object)      # numpy returns a 0-d array for a single variable
        out[()] = cmat[0, 0]
        return out.view(SymArray)
    return cmat


def quantile(a, q, axis=None, **kw):
    """linear-interpolation quantile (numpy default); forks via sort"""
    a = real_np.asarray(a)
    if axis is not None:
        raise Unsupported('quantile axis')
    v = sort(a.reshape(-1))
    n = len(v)
    qf = Fraction(q).limit_denominator(10**9) if not isinstance(q, R) else q.c
    pos = qf * (n - 1)
    lo = int(math.floor(pos))
    hi = min(lo + 1, n - 1)
    frac = pos - lo
    return v[lo] + (v[hi] - v[lo]) * R.const(frac)


def squareform(x, force='no', checks=True):
    x = real_np.asarray(x)
    if x.dtype != object:
        from scipy.spatial.distance import squareform as sq
        return sq(x, force=force, checks=checks)
    if x.ndim == 1:
        m = len(x)
        n = int(round((1 + (1 + 8 * m) ** 0.5) / 2))
        if n * (n - 1) // 2 != m:
            raise ValueError('Incompatible vector size. It must be a binomial coefficient n choose 2 '
                             'for some integer n >= 2.')
        out = real_np.empty((n, n), dtype=object)
        out.fill(ZERO)
        k = 0
        for i in range(n):
            for j in range(i + 1, n):
                out[i, j] = x[k]
                out[j, i] = x[k]
                k += 1
        return out.view(SymArray)
    if x.ndim == 2:
        n = x.shape[0]
        if x.shape[0] != x.shape[1]:
            raise ValueError('The matrix argument must be square.')
        if checks:
            # scipy's is_valid_dm: symmetric with zero diagonal (decided by the solver, forks if open)
            for i in range(n):
                if not bool(R.lift(x[i, i]) == 0):
                    raise ValueError('Distance matrix \'X\' diagonal must be zero.')
                for j in range(i + 1, n):
                    if not bool(R.lift(x[i, j]) == R.lift(x[j, i])):
                        raise ValueError('Distance matrix \'X\' must be symmetric.')
        out = real_np.empty(n * (n - 1) // 2, dtype=object)
        k = 0
        for i in range(n):
            for j in range(i + 1, n):
                out[k] = x[i, j]
                k += 1
        return out.view(SymArray)
    raise ValueError('squareform: bad dims')
