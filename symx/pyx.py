"""symx.pyx -- transpile rsatoolbox/cengine/similarity.pyx to bounds-checked Python on every run (DESIGN 4/C15).

The Cython dialect used by that file is small: typed signatures, ``cdef:`` declaration blocks, PyMem_Malloc'ed
buffers, a cvarray, one BLAS dgemv call, libc log/sqrt/isnan/NAN, C integer division.  The transformer strips the
types, turns raw buffers into ``Buf`` objects that raise ``OutOfBounds`` on any out-of-range access, models dgemv
(column-major) and reroutes ``/`` to C semantics (truncating division between C ints, float division otherwise)."""
import ast
import math
import re

import numpy as np

from .core import R, NAN as R_NAN, Unsupported
from .arrays import wrap


class OutOfBounds(Exception):
    pass


class Buf:
    """PyMem_Malloc'ed C buffer: uninitialised until written, every access bounds-checked"""
    UNSET = object()

    def __init__(self, n):
        self.n = int(n)
        self.v = [Buf.UNSET] * self.n

    def _chk(self, i):
        i = int(i)
        if i < 0 or i >= self.n:
            raise OutOfBounds(f'access at index {i} of a buffer of {self.n} elements')
        return i

    def __getitem__(self, i):
        i = self._chk(i)
        if self.v[i] is Buf.UNSET:
            raise OutOfBounds(f'read of uninitialised element {i}')
        return self.v[i]

    def __setitem__(self, i, val):
        self.v[self._chk(i)] = val

    def arr(self):
        return list(self.v)


class Buf2:
    def __init__(self, a, b):
        self.shape = (int(a), int(b))
        self.v = {}

    def _chk(self, key):
        i, j = int(key[0]), int(key[1])
        if not (0 <= i < self.shape[0] and 0 <= j < self.shape[1]):
            raise OutOfBounds(f'access at {key} of a {self.shape} array')
        return i, j

    def __getitem__(self, key):
        k = self._chk(key)
        if k not in self.v:
            raise OutOfBounds(f'read of uninitialised element {k}')
        return self.v[k]

    def __setitem__(self, key, val):
        self.v[self._chk(key)] = val


def dgemv(trans, m, n, alpha, A, lda, x, incx, beta, y, incy):
    """BLAS dgemv, trans='n': y <- alpha*A*x + beta*y with A column-major; the buffer is the row-major noise_small,
    so element (i,j) of the column-major matrix is buffer[j, i]"""
    if trans not in (b'n', 'n') or incx != 1 or incy != 1:
        raise Unsupported('dgemv variant')
    for i in range(m):
        acc = 0
        for j in range(n):
            acc = acc + A[j, i] * x[j]
        y[i] = alpha * acc if beta == 0 else alpha * acc + beta * y[i]


def _is_cint(x):
    return isinstance(x, (int, np.integer)) and not isinstance(x, (bool, np.bool_))


def c_div(a, b):
    """`/` under cdivision: truncating division between C ints, floating division otherwise"""
    if _is_cint(a) and _is_cint(b):
        q = abs(int(a)) // abs(int(b))
        return q if (a >= 0) == (b >= 0) else -q
    return a / b


def c_log(x):
    return x.log() if isinstance(x, R) else (math.log(x) if x > 0 else (-math.inf if x == 0 else math.nan))


def c_sqrt(x):
    return x.sqrt() if isinstance(x, R) else (math.sqrt(x) if x >= 0 else math.nan)


def c_isnan(x):
    return x.tag == 'nan' if isinstance(x, R) else x != x


class _Div(ast.NodeTransformer):
    def visit_BinOp(self, node):
        self.generic_visit(node)
        if isinstance(node.op, ast.Div):
            return ast.copy_location(ast.Call(func=ast.Name(id='_c_div', ctx=ast.Load()), args=[node.left, node.right],
                                              keywords=[]), node)
        return node

    def visit_AugAssign(self, node):
        self.generic_visit(node)
        if isinstance(node.op, ast.Div):
            import copy
            load = copy.deepcopy(node.target)
            for n in ast.walk(load):
                if hasattr(n, 'ctx'):
                    n.ctx = ast.Load()
            return ast.copy_location(ast.Assign(targets=[node.target], value=ast.Call(
                func=ast.Name(id='_c_div', ctx=ast.Load()), args=[load, node.value], keywords=[])), node)
        return node


_TYPE = r'(?:float_t|int_t|int|char)'


def _strip_args(args):
    return re.sub(_TYPE + r'\s*(?:\[[:,\s]*\])?\s*\*?\s*(\w+)', r'\1', args)


def to_python(src):
    lines = []
    for ln in src.split('\n'):
        s = ln.strip()
        if s.startswith(('import cython', 'from cython', 'from libc', 'from cpython', 'cimport', 'cnp.import_array',
                         'ctypedef', '@cython')):
            continue
        lines.append(ln)
    src = '\n'.join(lines)
    # function headers (possibly spanning lines)
    src = re.sub(r'(?ms)^(?:cpdef|cdef)\s+(?:\([^)\n]*\)|[^\n(]*?)\s*(\w+)\((.*?)\):\s*$',
                 lambda m: f'def {m.group(1)}({_strip_args(m.group(2))}):', src)
    out = []
    in_block = None
    for ln in src.split('\n'):
        ind = len(ln) - len(ln.lstrip())
        s = ln.strip()
        if in_block is not None:
            if s == '' or ind > in_block:
                decl = s
                if '=' in decl and not decl.startswith('#'):
                    m = re.match(_TYPE + r'\s*(?:\[[:,\s]*\])?\s*\*?\s*(\w+)\s*=\s*(.*)$', decl)
                    if m:
                        name, expr = m.group(1), m.group(2)
                        if decl.startswith('float_t') and re.fullmatch(r'-?\d+', expr):
                            expr = expr + '.0'
                        out.append(' ' * in_block + f'{name} = {expr}')
                continue
            in_block = None
        if s == 'cdef:':
            in_block = ind
            continue
        m = re.match(r'cdef\s+' + _TYPE + r'\s*(?:\[[:,\s]*\])?\s*\*?\s*(\w+)(\s*=\s*(.*))?$', s)
        if m:
            if m.group(3):
                expr = m.group(3)
                if s.startswith('cdef float_t') and re.fullmatch(r'-?\d+', expr):
                    expr += '.0'
                out.append(' ' * ind + f'{m.group(1)} = {expr}')
            continue
        out.append(ln)
    src = '\n'.join(out)
    src = re.sub(r'<[^<>]*>\s*PyMem_Malloc\((.*?)\s*\*\s*sizeof\(\w+\)\)', r'_Buf(\1)', src)
    src = re.sub(r'cvarray\(shape=\((.*?),\s*(.*?)\),.*?\)\n', r'_Buf2(\1, \2)\n', src)
    src = re.sub(r'PyMem_Free\((\w+)\)', 'pass', src)
    src = re.sub(r'<float_t>\s*(\w+)', r'float(\1)', src)
    src = re.sub(r'blas\.dgemv\((.*?)\)\n', lambda m: '_dgemv(' + m.group(1).replace('&', '').replace('[0, 0]', '') + ')\n',
                 src, flags=re.S)
    src = src.replace('NAN', '_NAN')
    src = re.sub(r'(?<![\w.])log\(', '_c_log(', src)
    src = re.sub(r'(?<![\w.])sqrt\(', '_c_sqrt(', src)
    src = re.sub(r'(?<![\w.])isnan\(', '_c_isnan(', src)
    tree = _Div().visit(ast.parse(src))
    ast.fix_missing_locations(tree)
    return tree, src


def load(path, symbolic=True):
    tree, text = to_python(open(path).read())
    ns = dict(_Buf=Buf, _Buf2=Buf2, _dgemv=dgemv, _c_div=c_div, _c_log=c_log, _c_sqrt=c_sqrt, _c_isnan=c_isnan,
              _NAN=R_NAN if symbolic else math.nan)
    exec(compile(tree, path + ' (transpiled)', 'exec'), ns)
    raw_calc = ns['calc']

    def calc(*a, **k):
        r = raw_calc(*a, **k)
        vals = r.arr() if isinstance(r, Buf) else list(r)
        return wrap(np.array(vals, dtype=object)) if symbolic else np.array([float(v) for v in vals])
    ns['calc_py'] = calc
    ns['_text'] = text
    return ns
