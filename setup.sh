#!/bin/bash
# Build the overlay interpreter used by every check: /venv's python + its site-packages
# + z3-solver / cvc5 from the offline wheelhouse.  Idempotent, offline.
set -e
V=/verif/.venv
if [ ! -x "$V/bin/python" ] || ! "$V/bin/python" -c "import z3, numpy, scipy" >/dev/null 2>&1; then
  rm -rf "$V"
  /venv/bin/python -m venv "$V"
  SP="$V/lib/python3.12/site-packages"
  printf "import site; site.addsitedir('/venv/lib/python3.12/site-packages')\n" > "$SP/base.pth"
  PIP_NO_INDEX=1 "$V/bin/pip" install -q --no-index --find-links /opt/veriftools/wheels z3-solver cvc5 >/dev/null
fi
"$V/bin/python" -c "import z3, numpy, scipy; print('overlay ok: z3', z3.get_version_string(), 'numpy', numpy.__version__)"
